"""Bounded scenario sets per property, run on the real code against the simulated adbd.

These are the BOUNDED stand-in of the deductive checks (labelled as such in the evidence, never counted as proved):
 * when a contract obligation is refuted, they look for a concrete failing input on the real code (replay of the violation);
 * when a changed function leaves the encoded subset (UNDECIDED), they still exercise it, with the bounds stated in BOUNDS.
Each scenario is a small dict of parameters; `run(prop, params)` re-runs exactly one (that is what a replay file holds).
"""
import itertools
import os
import random
import struct
import tempfile
from io import BytesIO

from sim import adbd
from sim.harness import Host, L, EXC, outcome

BOUNDS = {
    'C01': 'chunkings: 9 payload lists x 6 read fragmentations x 2 decode modes x 3 APIs x 2 twins, remote id != local id',
    'C02': 'every host packet of the C01/C07/C08 scenarios re-parsed independently; 200 random pack/unpack round trips',
    'C03': '8 fragmentations (incl. 1-byte, empty reads) x 3 operations x 2 twins; single-bit corruptions of 4 payloads; 3 unknown commands',
    'C04': 'protocol monitor on every scenario of C01, C07, C08, C09 with device-chosen remote ids and stop-and-wait device',
    'C05': '0..3 keys x accepted index (none/k/pubkey) x 2 twins, fresh token per challenge, repeated connect',
    'C07': 'sizes around chunk/maxdata boundaries x maxdata {4096,16384,65536,262144} x path lengths x mtime 0 x callbacks x sources',
    'C08': '5 contents x 6 DATA plans x 7 WRTE plans (incl. header splits) x callbacks x 2 twins',
    'C09': '4 listings x 6 WRTE plans x 2 twins; 5 stat triples',
    'C10': 'FAIL first/mid/at DONE for pull and push, FAIL before OKAY, split FAIL, reasons with % and non-UTF-8, bad status id',
    'C11': '3 await points x {silence, end-of-stream, other-stream chatter} x 6 timeout triples, virtual clock bound 4(R+T)+total',
    'C12': 'fault injected at each transport call index of a connect/shell/stat/list/pull/push scenario, then close/reconnect/replay',
    'C13': 'all sequences over {connect-ok, connect-fail, close, op} up to length 3 x 9 operations x 2 twins',
    'C14': 'counter start values near 0 and 2^32, 6 consecutive opens; plus the two-thread schedules of C06 (device-side check that no live id is reused)',
    'C15': 'write capacities {1,7,10,24,25,4096,varying} x connect/shell/push x 2 twins',
    'C16': 'every C01/C03/C05/C07/C08/C09/C10/C11/C12/C13/C15 scenario run through both twins: identical host packet logs, results, exception types; '
           'plus the loopback scenarios of C18 for both TCP transports',
    'C19': 'exhaustive op sequences up to length 5 over an 11-op alphabet keeping the aliasing cases (ids 0/1/2, wildcards, CLSE), plus random sequences of length 2..7 over a 3x3 id domain, against a reference model',
}


class Failure(Exception):
    pass


def fail(params, what, expected=None, observed=None):
    return {'params': params, 'what': what, 'expected': repr(expected)[:600], 'observed': repr(observed)[:600]}


def connected(twin, dev, **kw):
    h = Host(dev, twin, **kw)
    h.call('connect', read_timeout_s=kw.get('rt', 1.0), transport_timeout_s=kw.get('tt', 0.5)) if False else None
    return h


def mk(twin, dev, frag=None, write_cap=None, seed=0, **kw):
    h = Host(dev, twin, frag=frag, write_cap=write_cap, seed=seed, **kw)
    h.call('connect', transport_timeout_s=0.5, read_timeout_s=1.0)
    return h


def monitor_failures(params, h):
    out = []
    for v in h.dev.violations:
        out.append(fail(params, 'protocol monitor: ' + v))
    for (n, rem) in h.core.read_requests:
        if n > rem:
            out.append(fail(params, 'C03: bulk_read asked for %d bytes but only %d remain in the current packet' % (n, rem)))
            break
    return out


# ---------------------------------------------------------------------------------------------------------------------
CHUNKINGS = [[], [b'PASS'], [b'PA', b'SS'], [b'a', b'', b'b'], [b'\xe3', b'\x81\x82'], [b'temp=21\xc2'], [b'\x00' * 5, b'\xff\xfe'],
             [bytes(range(256))] * 3, [b'x' * 4096, b'y' * 4095, b'z']]
FRAGS = [None, 1, 5, 7, 16, [3, 0, 21, 0, 0, 1], 'rand', [24, 1]]


def c01_params(budget):
    twins = ('sync', 'async')
    for twin in twins:
        for ci, fi in itertools.product(range(len(CHUNKINGS)), range(len(FRAGS) if budget != 'quick' else 6)):
            for api in ('shell', 'exec_out', 'streaming_shell'):
                for decode in (False, True):
                    if budget == 'quick' and (ci + fi + decode) % 3 and api != 'shell':
                        continue
                    yield {'twin': twin, 'chunks': ci, 'frag': fi, 'api': api, 'decode': decode}


def c01_run(p):
    chunks = CHUNKINGS[p['chunks']]
    dev = adbd.Adbd(shell=lambda cmd: chunks, remote_base=0x50)
    h = mk(p['twin'], dev, frag=FRAGS[p['frag']], seed=p['chunks'])
    out = []
    if p['api'] == 'streaming_shell':
        r = outcome(lambda: h.call('streaming_shell', 'cmd', decode=p['decode']))
        exp = [c.decode('utf8', 'backslashreplace') if p['decode'] else c for c in chunks]
    else:
        r = outcome(lambda: h.call(p['api'], 'cmd', decode=p['decode']))
        whole = b''.join(chunks)
        exp = whole.decode('utf8', 'backslashreplace') if p['decode'] else whole
    if r[0] != 'ok' or r[1] != exp:
        out.append(fail(p, '%s result differs from what the device wrote' % p['api'], exp, r))
    out += monitor_failures(p, h)
    want_dest = {'shell': b'shell:cmd', 'exec_out': b'exec:cmd', 'streaming_shell': b'shell:cmd'}[p['api']]
    opens = [x for x in dev.log if x[0] == b'OPEN']
    if not opens or opens[-1][3] != want_dest + b'\0':
        out.append(fail(p, 'OPEN destination', want_dest + b'\0', opens[-1][3] if opens else None))
    h.finish()
    return out


# ---------------------------------------------------------------------------------------------------------------------
def c03_params(budget):
    for twin in ('sync', 'async'):
        for fi in range(len(FRAGS)):
            yield {'twin': twin, 'kind': 'frag', 'frag': fi}
        for k in range(4 if budget == 'quick' else 24):
            yield {'twin': twin, 'kind': 'corrupt', 'bit': k * 5 + 1}
        for w in (0, 0x12345678, struct.unpack('<I', b'DATA')[0], 0xFFFFFFFF, struct.unpack('<I', b'OKA\x80')[0], 0x80000000, struct.unpack('<I', b'\xc3\xa9AB')[0]):
            yield {'twin': twin, 'kind': 'badcmd', 'word': w}


def c03_run(p):
    out = []
    if p['kind'] == 'frag':
        chunks = [b'hello ', b'\x00\x01\x02' * 50, b'world']
        dev = adbd.Adbd(shell=lambda cmd: chunks, stats={b'/f': (0o100644, 12345, 99)}, dirs={b'/d': [(b'a', 1, 2, 3), (b'bb', 4, 5, 6)]})
        h = mk(p['twin'], dev, frag=FRAGS[p['frag']], seed=7)
        r = outcome(lambda: h.call('shell', 'x', decode=False))
        if r != ('ok', b''.join(chunks)):
            out.append(fail(p, 'shell under fragmentation', b''.join(chunks), r))
        r = outcome(lambda: h.call('stat', '/f'))
        if r != ('ok', (0o100644, 12345, 99)):
            out.append(fail(p, 'stat under fragmentation', (0o100644, 12345, 99), r))
        r = outcome(lambda: h.call('list', '/d'))
        if r[0] != 'ok' or [tuple(x) for x in r[1]] != [(bytearray(b'a'), 1, 2, 3), (bytearray(b'bb'), 4, 5, 6)]:
            out.append(fail(p, 'list under fragmentation', 'two entries', r))
        out += monitor_failures(p, h)
        h.finish()
        return out
    dev = adbd.Adbd(shell=lambda cmd: [b'\x00\x00\x00\x00', b'payload-two'])
    h = mk(p['twin'], dev)
    if p['kind'] == 'corrupt':
        orig_send = dev.send
        state = {'n': 0}

        def send(cmd, a0, a1, data=b''):
            if cmd == b'WRTE' and data:
                state['n'] += 1
                f = bytearray(adbd.frame(cmd, a0, a1, data))
                bit = p['bit'] % (len(data) * 8)
                f[24 + bit // 8] ^= 1 << (bit % 8)
                dev.to_host += f
                return
            orig_send(cmd, a0, a1, data)
        dev.send = send
        r = outcome(lambda: h.call('shell', 'x', decode=False))
        if r[:2] != ('exc', 'InvalidChecksumError'):
            out.append(fail(p, 'a corrupted non-empty payload must raise InvalidChecksumError, never be delivered', 'InvalidChecksumError', r))
    else:
        orig_send = dev.send

        def send(cmd, a0, a1, data=b''):
            if cmd == b'WRTE':
                dev.to_host += struct.pack('<6I', p['word'], a0, a1, 0, 0, p['word'] ^ 0xFFFFFFFF)
                return
            orig_send(cmd, a0, a1, data)
        dev.send = send
        r = outcome(lambda: h.call('shell', 'x', decode=False))
        if r[:2] != ('exc', 'InvalidCommandError'):
            out.append(fail(p, 'an unknown command word must raise InvalidCommandError', 'InvalidCommandError', r))
    h.finish()
    return out


# ---------------------------------------------------------------------------------------------------------------------
def c05_params(budget):
    for twin in ('sync', 'async'):
        for nkeys in range(0, 4):
            for accepted in ['none', 'pubkey'] + list(range(nkeys)):
                for cb in (False, True):
                    yield {'twin': twin, 'nkeys': nkeys, 'accepted': accepted, 'cb': cb}
        yield {'twin': twin, 'nkeys': 0, 'accepted': 'noauth', 'cb': False}
        yield {'twin': twin, 'nkeys': 2, 'accepted': 'badtoken', 'cb': False}
        yield {'twin': twin, 'nkeys': 2, 'accepted': 'reconnect-fail', 'cb': False}
        for read_t, auth_t, delay in ((0.5, 3.0, 2.0), (0.5, None, 2.0), (0.5, 3.0, 4.0), (2.0, 0.5, 1.0), (1.0, 1.0, 0.5)):
            yield {'twin': twin, 'nkeys': 1, 'accepted': 'pubkey-late', 'cb': True, 'read_t': read_t, 'auth_t': auth_t, 'delay': delay}


class Key(object):
    def __init__(self, i):
        self.i = i
        self.signed = []

    def Sign(self, data):
        self.signed.append(bytes(data))
        return b'SIG%d:' % self.i + bytes(data)

    def GetPublicKey(self):
        return b'PUB%d' % self.i


def c05_run(p):
    out = []
    keys = [Key(i) for i in range(p['nkeys'])]
    acc = p['accepted']
    calls = []
    if acc == 'noauth':
        dev = adbd.Adbd(maxdata=12345)
    else:
        auth = {'accept': (lambda sig, tok: isinstance(acc, int) and sig == b'SIG%d:' % acc + tok), 'accept_pubkey': acc == 'pubkey'}
        dev = adbd.Adbd(maxdata=12345, auth=auth)
    h = Host(dev, p['twin'])
    if acc == 'badtoken':
        orig = dev.send
        dev.send = lambda cmd, a0, a1, data=b'': orig(cmd, 7 if cmd == b'AUTH' else a0, a1, data)
    if acc == 'pubkey-late':
        # the user confirms the key `delay` seconds after it was offered: connect must wait up to the auth timeout (None = for ever), no longer
        dev.auth['accept_pubkey'] = False
        orig_handle = dev.handle

        def handle(cmd, a0, a1, data):
            orig_handle(cmd, a0, a1, data)
            if cmd == b'AUTH' and a0 == adbd.AUTH_RSAPUBLICKEY:
                def confirm():
                    dev.connected = True
                    dev.send(b'CNXN', adbd.VERSION, dev.maxdata, dev.banner)
                dev.timers.append((h.clock.now + p['delay'], confirm))
        dev.handle = handle
        r = outcome(lambda: h.call('connect', rsa_keys=keys, transport_timeout_s=p['read_t'], read_timeout_s=p['read_t'], auth_timeout_s=p['auth_t'],
                                   auth_callback=lambda d: calls.append(1)))
        in_time = p['auth_t'] is None or p['delay'] <= p['auth_t']
        if in_time and (r != ('ok', True) or not h.available):
            out.append(fail(p, 'connect must wait up to the auth timeout for the public key to be accepted', True, (r, h.available)))
        if not in_time and (r[0] != 'exc' or h.available):
            out.append(fail(p, 'connect must give up after the auth timeout and leave the device unavailable', 'timeout error', (r, h.available)))
        h.finish()
        return out
    if acc == 'reconnect-fail':
        dev.auth = None
        r = outcome(lambda: h.call('connect', rsa_keys=keys, transport_timeout_s=0.2, read_timeout_s=0.5))
        if r != ('ok', True) or not h.available:
            out.append(fail(p, 'first connect should succeed', True, r))
        h.core.fault_at = {h.core.calls + 1}
        r = outcome(lambda: h.call('connect', rsa_keys=keys, transport_timeout_s=0.2, read_timeout_s=0.5))
        if r[0] != 'exc' or h.available:
            out.append(fail(p, 'whenever connect() raises the device is left unavailable', 'exception and available == False', (r, h.available)))
        h.finish()
        return out
    r = outcome(lambda: h.call('connect', rsa_keys=keys or None, transport_timeout_s=0.2, read_timeout_s=0.5, auth_timeout_s=0.3,
                               auth_callback=(lambda d: calls.append(1)) if p['cb'] else None))
    success = acc in ('noauth', 'pubkey') and (acc == 'noauth' or p['nkeys'] > 0) or isinstance(acc, int)
    if success:
        if r != ('ok', True) or not h.available:
            out.append(fail(p, 'connect should report success and mark the device available', True, (r, h.available)))
        elif h.d._maxdata != 12345:
            out.append(fail(p, 'adopts the maxdata of the final CNXN', 12345, h.d._maxdata))
    else:
        want = 'DeviceAuthError' if p['nkeys'] == 0 and acc != 'noauth' else ('InvalidResponseError' if acc == 'badtoken' else None)
        if r[0] != 'exc' or (want and r[1] != want) or h.available:
            out.append(fail(p, 'connect must raise %s and leave the device unavailable' % (want or 'a timeout'), want, (r, h.available)))
    if dev.cnxn_log and not (dev.cnxn_log[0][0] == adbd.VERSION and dev.cnxn_log[0][2] == b'host::sim\0'):
        out.append(fail(p, 'CNXN(version, maxdata, host::<banner>\\0)', 'host::sim\\0', dev.cnxn_log[0]))
    if acc != 'badtoken':
        n_expected = 0 if acc == 'noauth' else (acc + 1 if isinstance(acc, int) else p['nkeys'])
        sigs = dev.sig_log
        if len(sigs) != n_expected:
            out.append(fail(p, 'number of signatures sent', n_expected, len(sigs)))
        for j, (sig, tok) in enumerate(sigs):
            if sig != b'SIG%d:' % j + tok:
                out.append(fail(p, 'challenge %d must be answered by key %d signing the most recent token' % (j, j), b'SIG%d:' % j + tok, sig))
                break
        exhausted = not isinstance(acc, int) and acc != 'noauth' and p['nkeys'] > 0
        if exhausted:
            if dev.pubkey_log != [b'PUB0\0']:
                out.append(fail(p, 'after all keys are rejected the first public key is offered NUL-terminated, once', [b'PUB0\0'], dev.pubkey_log))
            if p['cb'] and len(calls) != 1:
                out.append(fail(p, 'auth callback invoked exactly once after exhaustion', 1, len(calls)))
        elif dev.pubkey_log or calls:
            out.append(fail(p, 'no public key / callback unless every key was rejected', ([], []), (dev.pubkey_log, calls)))
    else:
        if any(k.signed for k in keys):
            out.append(fail(p, 'a challenge that is not a token must not be signed', [], [k.signed for k in keys]))
    h.finish()
    return out


# ---------------------------------------------------------------------------------------------------------------------
def sizes_around(maxdata):
    chunk = min(65536, maxdata // 2) or 2048
    s = {0, 1, 33, chunk - 1, chunk, chunk + 1, 2 * chunk + 17, maxdata - 30, maxdata - 9, maxdata - 8, maxdata, maxdata + 1}
    return sorted(x for x in s if x >= 0)


def c07_params(budget):
    maxdatas = [4096, 16384] if budget == 'quick' else [4096, 16384, 65536, 262144]
    for twin in ('sync', 'async'):
        for md in maxdatas:
            for size in sizes_around(md) + ([4040 + k for k in range(20)] if md == 4096 else []):
                for path in ('/sdcard/f', '/sdcard/' + 'p' * (200 if budget == 'quick' else 1000)):
                    yield {'twin': twin, 'maxdata': md, 'size': size, 'path': path, 'mtime': 0 if size % 2 else 1234567, 'cb': size % 3, 'src': 'bytesio'}
        for src in ('file', 'dir'):
            yield {'twin': twin, 'maxdata': 4096, 'size': 5000, 'path': '/sdcard/dest', 'mtime': 77, 'cb': 1, 'src': src}
        # the caller's st_mode reaches the SEND record unchanged, for files and for every file of a directory
        for src in ('bytesio', 'file', 'dir'):
            for mode in (0o644, 0o600, 0o40755, 0o100755):
                yield {'twin': twin, 'maxdata': 4096, 'size': 3000, 'path': '/sdcard/m', 'mtime': 5, 'cb': 0, 'src': src, 'st_mode': mode}
        # a stream that is not at position 0: the bytes from the current position are the content, with or without a callback
        for cbk in (0, 1):
            yield {'twin': twin, 'maxdata': 4096, 'size': 9000, 'path': '/sdcard/s', 'mtime': 5, 'cb': cbk, 'src': 'bytesio', 'seek': 1234}


def c07_run(p):
    out = []
    dev = adbd.Adbd(maxdata=p['maxdata'], remote_base=0x70)
    h = mk(p['twin'], dev)
    rnd = random.Random(p['size'])
    content = bytes(rnd.getrandbits(8) for _ in range(min(p['size'], 70000))) * (1 + p['size'] // 70000)
    content = content[:p['size']]
    seen = []

    def cb(path, n, total):
        seen.append(n)
        if p['cb'] == 2:
            raise RuntimeError('callback failure')
    kw = {'mtime': p['mtime']}
    if p['cb']:
        kw['progress_callback'] = cb
    if 'st_mode' in p:
        kw['st_mode'] = p['st_mode']
    expect = {}
    tmp = None
    cwd = os.getcwd()
    try:
        if p['src'] == 'bytesio':
            src = BytesIO(content)
            if p.get('seek'):
                src.seek(p['seek'])
                content = content[p['seek']:]
            expect[p['path'].encode()] = content
        else:
            tmp = tempfile.mkdtemp(prefix='simpush_', dir='/tmp')
            if p['src'] == 'file':
                src = os.path.join(tmp, 'one.bin')
                open(src, 'wb').write(content)
                expect[p['path'].encode()] = content
            else:
                d = os.path.join(tmp, 'dir')
                os.mkdir(d)
                for name in ('a.txt', 'logs', 'z.bin'):
                    data = content[:1000] + name.encode()
                    open(os.path.join(d, name), 'wb').write(data)
                    expect[(p['path'] + '/' + name).encode()] = data
                os.mkdir(os.path.join(tmp, 'elsewhere'))
                os.mkdir(os.path.join(tmp, 'elsewhere', 'logs'))
                os.chdir(os.path.join(tmp, 'elsewhere'))
                src = d
                dev.shell = lambda cmd: []
        t0 = h.clock.now
        r = outcome(lambda: h.call('push', src, p['path'], **kw))
    finally:
        os.chdir(cwd)
        if tmp:
            import shutil
            shutil.rmtree(tmp, ignore_errors=True)
    if r != ('ok', None):
        out.append(fail(p, 'push should return normally', None, r))
    for path, data in expect.items():
        got = dev.pushed.get(path)
        if got is None:
            out.append(fail(p, 'file never arrived on the device', path, sorted(dev.pushed)))
        elif got['data'] != data:
            out.append(fail(p, 'device file content differs from the source (%d vs %d bytes)' % (len(got['data']), len(data))))
        elif 'st_mode' in p and got['mode'] != b'%d' % p['st_mode']:
            out.append(fail(p, "SEND carries the caller's st_mode unchanged", p['st_mode'], got['mode']))
        elif 'st_mode' not in p and got['mode'] != b'%d' % 0o100644 and got['mode'] != str(33272).encode():
            out.append(fail(p, 'SEND mode field', 33272, got['mode']))
        elif p['mtime'] and got['mtime'] != p['mtime']:
            out.append(fail(p, 'DONE carries the given mtime', p['mtime'], got['mtime']))
        elif not p['mtime'] and not (int(t0) - 1 <= got['mtime'] <= int(h.clock.now) + 1):
            out.append(fail(p, 'DONE carries the current time when mtime is 0', int(t0), got['mtime']))
    if set(dev.pushed) - set(expect):
        out.append(fail(p, 'unexpected files', sorted(expect), sorted(dev.pushed)))
    if dev.max_wrte > p['maxdata']:
        out.append(fail(p, 'a WRITE payload exceeds maxdata', p['maxdata'], dev.max_wrte))
    if p['cb'] and p['src'] != 'dir' and sum(seen) != len(content):
        out.append(fail(p, 'progress callback byte counts must sum to the file size', len(content), seen[-5:]))
    out += monitor_failures(p, h)
    h.finish()
    return out


# ---------------------------------------------------------------------------------------------------------------------
DATA_PLANS = [None, [1], [65536], [100, 65536, 7], [8, 8, 8], [4000], [10, 0, 20]]
WRTE_PLANS = [None, [1], [3], [8], [7, 1, 4096], [4096], [12, 5]]


def c08_params(budget):
    for twin in ('sync', 'async'):
        for size in (0, 1, 100, 70000 if budget == 'quick' else 208953):
            for dp in range(len(DATA_PLANS)):
                for wp in range(len(WRTE_PLANS)):
                    if size > 10000 and (wp in (1, 2) or dp == 1):
                        continue
                    if budget == 'quick' and (dp * 7 + wp + size) % 3:
                        continue
                    yield {'twin': twin, 'size': size, 'dp': dp, 'wp': wp, 'cb': (dp + wp) % 3, 'dst': 'bytesio' if wp % 2 else 'file'}
        # the local destination fails in the middle of the transfer: the stream is closed while device data is in flight
        for fail_at in (1, 2):
            yield {'twin': twin, 'kind': 'dest-write-fails', 'fail_at': fail_at}


class FailingSink(BytesIO):
    def __init__(self, fail_at):
        BytesIO.__init__(self)
        self.n = 0
        self.fail_at = fail_at

    def write(self, b):
        self.n += 1
        if self.n >= self.fail_at:
            raise OSError(28, 'No space left on device (simulated)')
        return BytesIO.write(self, b)


def c08_write_fails(p):
    out = []
    content = bytes(range(256)) * 40
    dev = adbd.Adbd(maxdata=4096, fs={b'/f': content}, stats={b'/f': (0o100644, len(content), 5)}, data_plan=[2000], wrte_plan=[2008], remote_base=0x90)
    h = mk(p['twin'], dev)
    r = outcome(lambda: h.call('pull', '/f', FailingSink(p['fail_at'])))
    if r[:2] != ('exc', 'OSError'):
        out.append(fail(p, 'the error of the local destination must surface from pull', 'OSError', r))
    out += monitor_failures(p, h)
    if dev.streams:
        out.append(fail(p, 'the stream must be closed by exactly one host CLSE', 'no open stream', sorted(dev.streams)))
    h.finish()
    return out


def c08_run(p):
    if p.get('kind') == 'dest-write-fails':
        return c08_write_fails(p)
    out = []
    rnd = random.Random(p['size'] + 1)
    content = bytes(rnd.getrandbits(8) for _ in range(min(p['size'], 5000))) * (1 + p['size'] // 5000)
    content = content[:p['size']]
    dev = adbd.Adbd(maxdata=1 << 20, fs={b'/f': content}, stats={b'/f': (0o100644, len(content), 5)}, data_plan=DATA_PLANS[p['dp']],
                    wrte_plan=WRTE_PLANS[p['wp']], remote_base=0x90)
    h = mk(p['twin'], dev)
    seen = []

    def cb(path, n, total):
        seen.append(n)
        if p['cb'] == 2 and len(seen) == 1:
            raise RuntimeError('callback failure')
    kw = {'progress_callback': cb} if p['cb'] else {}
    tmp = None
    try:
        if p['dst'] == 'bytesio':
            dst = BytesIO()
            r = outcome(lambda: h.call('pull', '/f', dst, **kw))
            got = dst.getvalue()
        else:
            tmp = tempfile.mkdtemp(prefix='simpull_', dir='/tmp')
            path = os.path.join(tmp, 'out.bin')
            r = outcome(lambda: h.call('pull', '/f', path, **kw))
            got = open(path, 'rb').read() if os.path.exists(path) else None
    finally:
        if tmp:
            import shutil
            shutil.rmtree(tmp, ignore_errors=True)
    if r != ('ok', None):
        out.append(fail(p, 'pull should return normally', None, r))
    elif got != content:
        out.append(fail(p, 'pulled bytes differ from the device file (%s vs %d bytes)' % (None if got is None else len(got), len(content))))
    if p['cb'] and r[0] == 'ok' and sum(seen) != len(content):
        out.append(fail(p, 'progress callback byte counts must sum to the file size', len(content), (sum(seen), len(seen))))
    if r[0] == 'ok' and dev.streams:
        out.append(fail(p, 'pull must close its stream', 'no open stream', list(dev.streams)))
    out += monitor_failures(p, h)
    h.finish()
    return out


# ---------------------------------------------------------------------------------------------------------------------
def c09_params(budget):
    for twin in ('sync', 'async'):
        for li in range(len(LISTINGS)):
            for wp in range(len(WRTE_PLANS)):
                yield {'twin': twin, 'kind': 'list', 'li': li, 'wp': wp}
        for k in range(5):
            yield {'twin': twin, 'kind': 'stat', 'k': k, 'wp': k % len(WRTE_PLANS)}


LISTINGS = [[], [(b'a', 0, 0, 0)], [(b'.', 0o40755, 4096, 1), (b'..', 0o40755, 4096, 2), (b'...', 1, 2, 3), (b' ', 4, 5, 6)], [(b'file one', 0o100644, 2 ** 32 - 1, 7), (b'\xff\x00\xfe', 2 ** 32 - 1, 0, 2 ** 31), (b'x' * 255, 1, 2, 3)],
            [(b'n%d' % i, i, i * 3, i * 5) for i in range(60)],
            [(b'entry%04d' % i, i, i * 3, i * 5) for i in range(1100)]]
STATS = [(0, 0, 0), (2 ** 32 - 1, 2 ** 32 - 1, 2 ** 32 - 1), (0o100644, 12, 1600000000), (1, 2, 3), (3, 2, 1)]


def c09_run(p):
    out = []
    if p['kind'] == 'list':
        ents = LISTINGS[p['li']]
        dev = adbd.Adbd(dirs={b'/d': ents}, wrte_plan=WRTE_PLANS[p['wp']], remote_base=0xA0)
        h = mk(p['twin'], dev)
        r = outcome(lambda: h.call('list', '/d'))
        exp = [(n, m, s, t) for (n, m, s, t) in ents]
        if r[0] != 'ok' or [(bytes(x[0]), x[1], x[2], x[3]) for x in r[1]] != exp:
            out.append(fail(p, 'list must return exactly the DENT records before DONE', exp[:3], r if r[0] != 'ok' else r[1][:3]))
    else:
        dev = adbd.Adbd(stats={b'/f': STATS[p['k']]}, wrte_plan=WRTE_PLANS[p['wp']], remote_base=0xA0)
        h = mk(p['twin'], dev)
        r = outcome(lambda: h.call('stat', '/f'))
        if r != ('ok', STATS[p['k']]):
            out.append(fail(p, 'stat must return the exact (mode, size, mtime)', STATS[p['k']], r))
    if r[0] == 'ok' and dev.streams:
        out.append(fail(p, 'the stream must be closed afterwards', 'no open stream', list(dev.streams)))
    out += monitor_failures(p, h)
    h.finish()
    return out


# ---------------------------------------------------------------------------------------------------------------------
REASONS = [b'permission denied', b'50% off coupon.png: No such file', b'bad \xff\xfe name', b'']


def c10_params(budget):
    for twin in ('sync', 'async'):
        for ri in range(len(REASONS)):
            for wp in (0, 1, 3, 5):
                yield {'twin': twin, 'op': 'pull', 'at': 0, 'ri': ri, 'wp': wp}
                yield {'twin': twin, 'op': 'pull', 'at': 2, 'ri': ri, 'wp': wp}
                yield {'twin': twin, 'op': 'pull', 'at': 'done', 'ri': ri, 'wp': wp}
            for at in ('first', 'mid', 'done'):
                for delay in (False, True, 2):
                    for wp in (0, 3, 4):
                        yield {'twin': twin, 'op': 'push', 'at': at, 'ri': ri, 'delay': delay, 'wp': wp}
        yield {'twin': twin, 'op': 'push', 'at': 'badstatus', 'ri': 0, 'delay': False, 'wp': 0}
        # the device answers the host's CLSE with remote id 0 (accepted by the library's zero fallback): the FAIL must still surface
        for at in (0, 1):
            yield {'twin': twin, 'op': 'pull-clse0', 'at': at, 'ri': 0, 'wp': 0}
        # the FAIL record trickles in several packets, each within read_timeout_s but together longer: still the failure, not a timeout
        for op in ('pull', 'push'):
            yield {'twin': twin, 'op': op + '-trickle', 'at': 0, 'ri': 0, 'wp': 0}


def c10_special(p):
    out = []
    reason = REASONS[p['ri']]
    if p['op'] == 'pull-clse0':
        dev = adbd.Adbd(maxdata=1 << 20, fs={b'/f': b'q' * 20000}, fail={'recv': (p['at'], reason)}, data_plan=[6000])
        dev.clse_zero_remote = True
        h = mk(p['twin'], dev)
        r = outcome(lambda: h.call('pull', '/f', BytesIO()))
        if r[:2] != ('exc', 'AdbCommandFailureException'):
            out.append(fail(p, 'a sync FAIL during pull must raise AdbCommandFailureException (device closes with remote id 0)', 'AdbCommandFailureException', r))
        h.finish()
        return out
    # trickle: header at once, the reason in two WRTEs 0.15 s apart, read_timeout_s = 0.25
    op = p['op'].split('-')[0]
    if op == 'pull':
        dev = adbd.Adbd(maxdata=4096, fs={b'/f': b'q' * 100}, fail={'recv': (0, reason)}, wrte_plan=[8, 10, 4096])
    else:
        dev = adbd.Adbd(maxdata=4096, fail={'send': ('done', reason, False)}, wrte_plan=[8, 10, 4096])
    h = Host(dev, p['twin'], stall='empty')
    h.call('connect', transport_timeout_s=0.05, read_timeout_s=0.25)
    orig = dev.send
    state = {'n': 0}

    def send(cmd, a0, a1, data=b''):
        if cmd == b'WRTE' and (data[:4] == b'FAIL' or state['n']):
            state['n'] += 1
            if state['n'] > 1:
                dev.timers.append((h.clock.now + 0.15, lambda: orig(cmd, a0, a1, data)))
                return
        orig(cmd, a0, a1, data)
    dev.send = send
    want = 'AdbCommandFailureException' if op == 'pull' else 'PushFailedError'
    if op == 'pull':
        r = outcome(lambda: h.call('pull', '/f', BytesIO(), transport_timeout_s=0.05, read_timeout_s=0.25))
    else:
        r = outcome(lambda: h.call('push', BytesIO(b'x' * 100), '/f', transport_timeout_s=0.05, read_timeout_s=0.25))
    if r[:2] != ('exc', want):
        out.append(fail(p, 'a failure the device reported must not be replaced by a timeout when every single wait was within read_timeout_s', want, r))
    h.finish()
    return out


def c10_run(p):
    if p['op'] in ('pull-clse0', 'pull-trickle', 'push-trickle'):
        return c10_special(p)
    out = []
    reason = REASONS[p['ri']]
    if p['op'] == 'pull':
        content = b'q' * (200000 if p['wp'] in (0, 5) else 20000)
        dev = adbd.Adbd(maxdata=1 << 20, fs={b'/f': content}, fail={'recv': (p['at'], reason)}, wrte_plan=WRTE_PLANS[p['wp']], data_plan=[65536] if p['wp'] in (0, 5) else [6000])
        h = mk(p['twin'], dev)
        r = outcome(lambda: h.call('pull', '/f', BytesIO()))
        if r[:2] != ('exc', 'AdbCommandFailureException'):
            out.append(fail(p, 'a sync FAIL during pull must raise AdbCommandFailureException', 'AdbCommandFailureException', r))
        elif reason.decode('utf8', 'backslashreplace') not in r[2]:
            out.append(fail(p, 'the exception must carry the device message', reason, r[2]))
    else:
        f = ('badstatus', b'QUIT') if p['at'] == 'badstatus' else (p['at'], reason, 2)
        dev = adbd.Adbd(maxdata=4096, fail={'send': f}, okay_delay=p.get('delay', False), wrte_plan=WRTE_PLANS[p['wp']])
        h = mk(p['twin'], dev)
        r = outcome(lambda: h.call('push', BytesIO(b'd' * 10000), '/sdcard/x', read_timeout_s=1.0))
        want = 'InvalidResponseError' if p['at'] == 'badstatus' else 'PushFailedError'
        if r[:2] != ('exc', want):
            out.append(fail(p, 'a sync FAIL during push must raise %s (never a timeout, never success)' % want, want, r))
        elif want == 'PushFailedError' and reason.decode('utf8', 'backslashreplace') not in r[2] and repr(reason)[2:-1] not in r[2] and reason not in r[2].encode('utf8', 'backslashreplace'):
            out.append(fail(p, 'PushFailedError must carry the device message', reason, r[2]))
    h.finish()
    return out


# ---------------------------------------------------------------------------------------------------------------------
def c11_params(budget):
    triples = [(0.5, 1.0, None), (None, 1.0, None), (8.0, 10.0, 1.0), (2.0, 1.0, 5.0), (0.0, 0.0, None), (-1.0, 1.0, 0.5)]
    for twin in ('sync', 'async'):
        for ti, (tt, rt, total) in enumerate(triples):
            for point in ('open', 'data', 'close'):
                for stall in ('raise', 'empty', 'chatter'):
                    yield {'twin': twin, 'tt': tt, 'rt': rt, 'total': total, 'point': point, 'stall': stall}
        yield {'twin': twin, 'tt': 0.5, 'rt': 1.0, 'total': None, 'point': 'sync', 'stall': 'raise'}
        # the device's CLSE arrives after the whole-command limit although every single read was in time: it must still be answered
        yield {'twin': twin, 'tt': 0.5, 'rt': 1.0, 'total': 1.0, 'point': 'late-close', 'stall': 'empty'}
        # a whole-command limit of 0 is a limit, not "no limit"
        yield {'twin': twin, 'tt': 0.5, 'rt': 1.0, 'total': 0, 'point': 'zero-limit', 'stall': 'empty'}
        yield {'twin': twin, 'tt': 0.5, 'rt': 1.0, 'total': 0.0, 'point': 'zero-limit', 'stall': 'empty'}
        # the device never confirms the host's CLSE of a sync stream but keeps writing on that very stream
        for op in ('stat', 'list'):
            yield {'twin': twin, 'tt': 0.5, 'rt': 1.0, 'total': None, 'point': 'sync-close', 'stall': 'own-stream', 'op': op}


def c11_special(p):
    out = []
    if p['point'] == 'late-close':
        dev = adbd.Adbd(shell=lambda cmd: [b'slow output'])
        h = Host(dev, p['twin'], stall='empty')
        h.call('connect', transport_timeout_s=0.5, read_timeout_s=1.0)
        orig = dev.send

        def send(cmd, a0, a1, data=b''):
            if cmd == b'WRTE':
                dev.timers.append((h.clock.now + 0.6, lambda: orig(cmd, a0, a1, data)))
            elif cmd == b'CLSE' and a1 in dev.streams and not dev.streams[a1].closed_by_host:
                dev.timers.append((h.clock.now + 0.65, lambda: orig(cmd, a0, a1, data)))
            else:
                orig(cmd, a0, a1, data)
        dev.send = send
        r = outcome(lambda: h.call('shell', 'x', transport_timeout_s=p['tt'], read_timeout_s=p['rt'], timeout_s=p['total'], decode=False))
        closes = [x for x in dev.log if x[0] == b'CLSE']
        if len(closes) != 1:
            out.append(fail(p, 'C04: a device CLOSE that the host consumed must be answered with exactly one CLOSE, also near the whole-command limit', 1, (len(closes), r)))
        out += monitor_failures(p, h)
        h.finish()
        return out
    # zero-limit: the device keeps producing output and never closes; timeout_s = 0 must stop the command after the first packet
    dev = adbd.Adbd(shell=lambda cmd: [b'chunk'] * 400)
    h = Host(dev, p['twin'], stall='empty')
    h.call('connect', transport_timeout_s=0.5, read_timeout_s=1.0)
    r = outcome(lambda: h.call('shell', 'x', transport_timeout_s=p['tt'], read_timeout_s=p['rt'], timeout_s=p['total'], decode=False))
    nw = len([x for x in dev.log if x[0] == b'OKAY'])
    if r[:2] != ('exc', 'AdbTimeoutError') or nw > 3:
        out.append(fail(p, 'timeout_s = 0 is a whole-command limit: the command must fail with AdbTimeoutError after the first packet', 'AdbTimeoutError',
                        (r[:2], 'acknowledged %d packets' % nw)))
    h.finish()
    return out


def c11_run(p):
    if p['point'] in ('late-close', 'zero-limit'):
        return c11_special(p)
    out = []
    n = {'open': 0, 'data': 1, 'close': 2}.get(p['point'], 0)
    dev = adbd.Adbd(shell=lambda cmd: [b'one', b'two'])
    h = Host(dev, p['twin'], stall='empty' if p['stall'] == 'empty' else 'raise')
    h.call('connect', transport_timeout_s=0.5, read_timeout_s=1.0)
    # the device goes silent at the chosen await point
    orig = dev.send
    state = {'sent': 0}

    def send(cmd, a0, a1, data=b''):
        if cmd in (b'OKAY', b'WRTE', b'CLSE'):
            if state['sent'] >= n:
                return
            state['sent'] += 1
        orig(cmd, a0, a1, data)
    dev.send = send
    if p['stall'] == 'chatter':
        h.core.chatter = lambda: adbd.frame(b'WRTE', 999, 777, b'noise')
    rt, tt, total = p['rt'], p['tt'], p['total']
    eff_r = rt if total is None else min(rt, total)
    eff_t = eff_r if tt is None else min(tt, eff_r)
    bound = 4 * (max(eff_r, 0) + max(eff_t, 0)) + (total or 0) + 1.0
    h.core.max_virtual = h.clock.now + 60 * (1 + bound)
    t0 = h.clock.now
    nseen = len(h.core.timeouts_seen)
    if p['point'] == 'sync-close':
        dev.send = orig
        dev.stats[b'/f'] = (1, 2, 3)
        dev.dirs[b'/f'] = [(b'n', 1, 2, 3)]
        ids = {}

        def send2(cmd, a0, a1, data=b''):
            if cmd == b'CLSE':
                ids['pair'] = (a0, a1)
                return                      # never confirm the close
            orig(cmd, a0, a1, data)
        dev.send = send2
        dev.strict = False
        h.core.chatter = lambda: adbd.frame(b'WRTE', ids['pair'][0], ids['pair'][1], b'still talking') if 'pair' in ids else b''
        r = outcome(lambda: h.call(p['op'], '/f', transport_timeout_s=tt, read_timeout_s=rt))
    elif p['point'] == 'sync':
        r = outcome(lambda: h.call('stat', '/f', transport_timeout_s=tt, read_timeout_s=rt))
    else:
        r = outcome(lambda: h.call('shell', 'x', transport_timeout_s=tt, read_timeout_s=rt, timeout_s=total, decode=False))
    dt = h.clock.now - t0
    if r[0] != 'exc' or r[1] not in ('AdbTimeoutError', 'TcpTimeoutException'):
        out.append(fail(p, 'a stalled device must produce AdbTimeoutError or the transport timeout error', 'timeout error', r))
    elif dt > bound:
        out.append(fail(p, 'the operation must fail within a small multiple of read+transport timeouts (virtual seconds)', bound, dt))
    for kind, t in h.core.timeouts_seen[nseen:]:
        if t is not None and eff_t is not None and t > max(eff_t, 0) + 1e-9 and t > max(eff_r, 0) + 1e-9:
            out.append(fail(p, 'effective timeouts must satisfy transport <= read <= total', (eff_t, eff_r, total), t))
            break
    h.finish()
    return out


# ---------------------------------------------------------------------------------------------------------------------
OPS = ['shell', 'exec_out', 'root', 'reboot', 'streaming_shell', 'list', 'stat', 'pull', 'push']


def do_op(h, op, tmpdir):
    if op in ('shell', 'exec_out', 'streaming_shell'):
        return h.call(op, 'x')
    if op in ('root', 'reboot'):
        return h.call(op)
    if op in ('list', 'stat'):
        return h.call(op, '/p')
    if op == 'pull':
        return h.call('pull', '/p', os.path.join(tmpdir, 'PULLED'))
    if op == 'pull-deep':
        return h.call('pull', '/p', os.path.join(tmpdir, 'new', 'sub', 'PULLED'))
    return h.call('push', BytesIO(b'abc'), '/p')


def c13_params(budget):
    seqs = [[], ['ok', 'close'], ['fail'], ['ok', 'fail'], ['ok', 'close', 'fail'], ['ok', 'ok', 'close']]
    for twin in ('sync', 'async'):
        for si, seq in enumerate(seqs):
            for op in OPS:
                yield {'twin': twin, 'seq': seq, 'op': op}
        for op in ('list', 'stat', 'pull', 'push'):
            yield {'twin': twin, 'seq': ['ok'], 'op': op, 'empty_path': True}
        for seq in ([], ['ok', 'close'], ['fail']):
            yield {'twin': twin, 'seq': seq, 'op': 'pull-deep'}
        yield {'twin': twin, 'seq': ['ok'], 'op': 'pull-deep', 'empty_path': True}
        for then in ('close', 'fail'):
            yield {'twin': twin, 'seq': ['ok'], 'op': 'late-generator', 'then': then}


def c13_late_generator(p):
    """streaming_shell() called while connected, but consumed only after close() / a failed connect(): the guard applies when it runs."""
    out = []
    dev = adbd.Adbd(shell=lambda c: [b'x'])
    h = Host(dev, p['twin'])
    h.call('connect', transport_timeout_s=0.2, read_timeout_s=0.5)
    g = h.d.streaming_shell('x')
    if p['then'] == 'close':
        h.call('close')
    else:
        h.core.fault_at = {h.core.calls + 1}
        outcome(lambda: h.call('connect', transport_timeout_s=0.2, read_timeout_s=0.5))
        h.core.fault_at = None
    nw = len(h.core.written)
    if p['twin'] == 'sync':
        r = outcome(lambda: list(g))
    else:
        async def consume():
            return [x async for x in g]
        r = outcome(lambda: h.loop.run_until_complete(consume()))
    if r[:2] != ('exc', 'AdbConnectionError'):
        out.append(fail(p, 'an operation that runs while the device is not connected must raise AdbConnectionError', 'AdbConnectionError', r))
    if len(h.core.written) != nw:
        out.append(fail(p, 'not a single byte may be written to the transport', 0, len(h.core.written) - nw))
    h.finish()
    return out


def c13_run(p):
    if p.get('op') == 'late-generator':
        return c13_late_generator(p)
    out = []
    dev = adbd.Adbd(shell=lambda c: [b'x'], stats={b'/p': (1, 2, 3)}, dirs={b'/p': []}, fs={b'/p': b'data'})
    h = Host(dev, p['twin'])
    for step in p['seq']:
        if step == 'ok':
            h.core.fault_at = None
            r = outcome(lambda: h.call('connect', transport_timeout_s=0.2, read_timeout_s=0.5))
            if r != ('ok', True) or not h.available:
                out.append(fail(p, 'connect-ok must make the device available', True, (r, h.available)))
        elif step == 'fail':
            h.core.fault_at = {h.core.calls + 1}
            r = outcome(lambda: h.call('connect', transport_timeout_s=0.2, read_timeout_s=0.5))
            h.core.fault_at = None
            if r[0] != 'exc' or h.available:
                out.append(fail(p, 'available must be False after a failed connect()', False, (r, h.available)))
        else:
            outcome(lambda: h.call('close'))
            if h.available:
                out.append(fail(p, 'available must be False after close()', False, True))
    tmp = tempfile.mkdtemp(prefix='simc13_', dir='/tmp')
    try:
        nlog, nw = len(dev.log), len(h.core.written)
        if p.get('empty_path'):
            if p['op'] == 'pull':
                r = outcome(lambda: h.call('pull', '', os.path.join(tmp, 'PULLED')))
            elif p['op'] == 'pull-deep':
                r = outcome(lambda: h.call('pull', '', os.path.join(tmp, 'new', 'sub', 'PULLED')))
            elif p['op'] == 'push':
                r = outcome(lambda: h.call('push', BytesIO(b'x'), ''))
            else:
                r = outcome(lambda: h.call(p['op'], ''))
            want = 'DevicePathInvalidError'
        else:
            connected_now = bool(p['seq']) and p['seq'][-1] == 'ok'
            if connected_now:
                return out
            r = outcome(lambda: do_op(h, p['op'], tmp))
            want = 'AdbConnectionError'
        if r[:2] != ('exc', want):
            out.append(fail(p, 'must raise %s' % want, want, r))
        if len(h.core.written) != nw:
            out.append(fail(p, 'not a single byte may be written to the transport', 0, len(h.core.written) - nw))
        if os.listdir(tmp):
            out.append(fail(p, 'no local file (or directory) may be created', [], os.listdir(tmp)))
    finally:
        import shutil
        shutil.rmtree(tmp, ignore_errors=True)
    h.finish()
    return out


# ---------------------------------------------------------------------------------------------------------------------
def c14_params(budget):
    for twin in ('sync', 'async'):
        for start in (0, 1, 2 ** 32 - 4, 2 ** 32 - 2, 2 ** 32 - 1):
            yield {'twin': twin, 'start': start}


def c14_run(p):
    out = []
    dev = adbd.Adbd(shell=lambda c: [b'x'])
    h = mk(p['twin'], dev)
    h.d._local_id = p['start']
    for _ in range(6):
        h.call('shell', 'x')
    ids = [x[1] for x in dev.log if x[0] == b'OPEN']
    if any(not (1 <= i <= 2 ** 32 - 1) for i in ids) or len(set(ids)) != len(ids):
        out.append(fail(p, 'every OPEN uses a fresh local id in [1, 2^32-1]', 'distinct ids in range', ids))
    out += monitor_failures(p, h)
    h.finish()
    return out


# ---------------------------------------------------------------------------------------------------------------------
def c15_params(budget):
    for twin in ('sync', 'async'):
        for cap in (1, 7, 10, 24, 25, 4096, [3, 100, 1]):
            yield {'twin': twin, 'cap': cap}


def c15_run(p):
    out = []
    dev = adbd.Adbd(shell=lambda c: [b'out'], maxdata=4096)
    h = Host(dev, p['twin'], write_cap=p['cap'])
    r = outcome(lambda: h.call('connect', transport_timeout_s=0.5, read_timeout_s=1.0))
    if r != ('ok', True):
        out.append(fail(p, 'connect over a short-writing transport', True, r))
    else:
        r = outcome(lambda: h.call('shell', 'echo', decode=False))
        if r != ('ok', b'out'):
            out.append(fail(p, 'shell over a short-writing transport', b'out', r))
        r = outcome(lambda: h.call('push', BytesIO(b'z' * 9000), '/sdcard/z'))
        if r != ('ok', None) or dev.pushed.get(b'/sdcard/z', {}).get('data') != b'z' * 9000:
            out.append(fail(p, 'push over a short-writing transport must arrive intact or raise', 9000, (r, len(dev.pushed.get(b'/sdcard/z', {}).get('data', b'')))))
    out += monitor_failures(p, h)
    h.finish()
    return out


# ---------------------------------------------------------------------------------------------------------------------
def c12_params(budget):
    for twin in ('sync', 'async'):
        for k in range(0, 140 if budget != 'quick' else 60, 1 if budget != 'quick' else 3):
            yield {'twin': twin, 'k': k}


def scenario_all(h, tmp):
    res = []
    res.append(h.call('connect', transport_timeout_s=0.2, read_timeout_s=0.5))
    res.append(h.call('shell', 'x', decode=False))
    res.append(h.call('stat', '/p'))
    res.append([tuple(e) for e in h.call('list', '/p')])
    b = BytesIO()
    h.call('pull', '/p', b)
    res.append(b.getvalue())
    h.call('push', BytesIO(b'pushed'), '/q')
    return res


def c12_run(p):
    out = []
    def newdev():
        return adbd.Adbd(shell=lambda c: [b'he', b'llo'], stats={b'/p': (1, 2, 3)}, dirs={b'/p': [(b'n', 1, 2, 3)]}, fs={b'/p': b'content'})
    ref = Host(newdev(), p['twin'])
    expect = scenario_all(ref, None)
    ref.finish()
    dev = newdev()
    h = Host(dev, p['twin'], fault_at={p['k']})
    r = outcome(lambda: scenario_all(h, None))
    if r[0] == 'ok' and r[1] != expect:
        out.append(fail(p, 'an operation returned a wrong result instead of raising', expect, r[1]))
    io = h.d._io_manager
    for name in ('_transport_lock', '_store_lock'):
        lk = getattr(io, name)
        if lk.locked():
            out.append(fail(p, 'no internal lock may be left held after a transport failure', 'unlocked', name))
    if h.d._local_id_lock.locked():
        out.append(fail(p, 'no internal lock may be left held after a transport failure', 'unlocked', '_local_id_lock'))
    h.core.fault_at = None
    r2 = outcome(lambda: h.call('close'))
    if r2[0] != 'ok':
        out.append(fail(p, 'close() must complete after a failure', None, r2))
    r3 = outcome(lambda: scenario_all(h, None))
    if r3 != ('ok', expect):
        out.append(fail(p, 'after reconnecting to a healthy device every operation behaves correctly', expect, r3))
    h.finish()
    return out


# ---------------------------------------------------------------------------------------------------------------------
def c19_params(budget):
    ids = [0, 1, 2]
    ops = []
    for a0 in ids:
        for a1 in ids:
            ops.append(('put', a0, a1, b'WRTE'))
            ops.append(('put', a0, a1, b'CLSE'))
            ops.append(('clear', a0, a1))
    for a0 in ids + [None]:
        for a1 in ids + [None]:
            ops.append(('get', a0, a1))
    rnd = random.Random(19)
    n = 400 if budget == 'quick' else 4000
    for i in range(n):
        yield {'seq': [rnd.randrange(len(ops)) for _ in range(rnd.randint(2, 7))]}
    # exhaustive up to length 4 (quick) / 5 (thorough) over a reduced alphabet that keeps the aliasing cases
    small = [('put', 1, 1, b'WRTE'), ('put', 2, 1, b'WRTE'), ('put', 1, 1, b'CLSE'), ('put', 0, 1, b'WRTE'), ('put', 1, 2, b'WRTE'),
             ('get', 1, 1), ('get', None, 1), ('get', None, None), ('get', 2, 1), ('get', 1, None), ('clear', 1, 1)]
    idx = [ops.index(o) for o in small]
    for ln in range(1, 6):
        for seq in itertools.product(idx, repeat=ln):
            yield {'seq': list(seq)}


def c19_ops():
    ids = [0, 1, 2]
    ops = []
    for a0 in ids:
        for a1 in ids:
            ops.append(('put', a0, a1, b'WRTE'))
            ops.append(('put', a0, a1, b'CLSE'))
            ops.append(('clear', a0, a1))
    for a0 in ids + [None]:
        for a1 in ids + [None]:
            ops.append(('get', a0, a1))
    return ops


def c19_run(p):
    out = []
    ops = c19_ops()
    Store = L['hidden_helpers']._AdbPacketStore
    s = Store()
    model = {}              # (a0, a1) -> list of (cmd, data)   (present even if empty)
    k = 0

    def pending_matches(a0, a1):
        return [key for key, q in model.items() if q and (a0 is None or key[0] == a0) and (a1 is None or key[1] == a1)]
    for oi in p['seq']:
        op = ops[oi]
        k += 1
        if op[0] == 'put':
            _, a0, a1, cmd = op
            data = b'd%d' % k
            s.put(a0, a1, cmd, data)
            if cmd != b'CLSE' or (a0, a1) in model:
                model.setdefault((a0, a1), []).append((cmd, data))
            elif (a0, a1) not in model:
                # unspecified here (C06/K1): follow what the store did
                if s.find(a0, a1) is not None:
                    model[(a0, a1)] = [(cmd, data)]
        elif op[0] == 'clear':
            s.clear(op[1], op[2])
            model.pop((op[1], op[2]), None)
        else:
            _, a0, a1 = op
            m = pending_matches(a0, a1)
            f = s.find(a0, a1)
            if (f is None) != (not m) or (f is not None and tuple(f) not in m):
                out.append(fail(p, 'find(%r, %r) must return a pending matching pair iff one exists' % (a0, a1), m, f))
                return out
            fz = s.find_allow_zeros(a0, a1)
            mz = set(pending_matches(a0, a1)) | set(pending_matches(a0, 0)) | set(pending_matches(0, a1)) | set(pending_matches(0, 0))
            if (fz is None) != (not mz) or (fz is not None and tuple(fz) not in mz):
                out.append(fail(p, 'find_allow_zeros(%r, %r)' % (a0, a1), sorted(mz), fz))
                return out
            if ((a0, a1) in s) != bool(m):
                out.append(fail(p, 'contains', bool(m), (a0, a1) in s))
                return out
            if m:
                r = outcome(lambda: s.get(a0, a1))
                if r[0] != 'ok':
                    out.append(fail(p, 'get(%r, %r) on a pending pair' % (a0, a1), 'a packet', r))
                    return out
                cmd, g0, g1, data = r[1]
                if (g0, g1) not in m or model[(g0, g1)][0] != (cmd, data):
                    out.append(fail(p, 'get must return the oldest packet of a matching pair', [model[x][0] for x in m], r[1]))
                    return out
                model[(g0, g1)].pop(0)
                if cmd == b'CLSE':
                    model.pop((g0, g1), None)
        want_len = sum(1 for q in model.values() if q)
        if len(s) != want_len:
            out.append(fail(p, 'len must equal the number of pairs with pending packets', want_len, len(s)))
            return out
    s.clear_all()
    if len(s) != 0 or s.find(None, None) is not None:
        out.append(fail(p, 'clear_all forgets everything', 0, len(s)))
    return out


# ---------------------------------------------------------------------------------------------------------------------
def c02_params(budget):
    for twin in ('sync', 'async'):
        for version in (0x01000000, 0x01000001, 0x02000000, 0xFFFFFFFF):
            yield {'kind': 'session', 'twin': twin, 'version': version}
    rnd = random.Random(2)
    for i in range(200):
        n = rnd.choice([0, 1, 5, 255, 4096, 70000])
        yield {'cmd': rnd.randrange(7), 'a0': rnd.choice([0, 1, 2 ** 32 - 1, rnd.getrandbits(32)]), 'a1': rnd.choice([0, 2 ** 32 - 1, rnd.getrandbits(32)]),
               'n': n, 'fill': rnd.choice([0, 0xFF, 0x80, None]), 'ba': i % 2}


def c02_session(p):
    """Whatever protocol version the device announces, every host packet keeps the checked framing (the monitor re-parses each one)."""
    out = []
    dev = adbd.Adbd(shell=lambda c: [b'out'], stats={b'/f': (1, 2, 3)}, maxdata=4096, version=p['version'])
    h = mk(p['twin'], dev)
    for f in (lambda: h.call('shell', 'echo', decode=False), lambda: h.call('push', BytesIO(b'z' * 9000), '/sdcard/z'), lambda: h.call('stat', '/f')):
        r = outcome(f)
        if r[0] != 'ok':
            out.append(fail(p, 'C02 session: the operation should succeed', 'ok', r))
    out += [f for f in monitor_failures(p, h)]
    h.finish()
    return out


def c02_run(p):
    if p.get('kind') == 'session':
        return c02_session(p)
    out = []
    M = L['adb_message']
    C = L['constants']
    cmd = C.IDS[p['cmd']]
    rnd = random.Random(p['n'])
    data = bytes([p['fill']] * p['n']) if p['fill'] is not None else bytes(rnd.getrandbits(8) for _ in range(p['n']))
    if p['ba']:
        data = bytearray(data)
    msg = M.AdbMessage(cmd, p['a0'], p['a1'], data)
    packed = msg.pack()
    exp = adbd.frame(cmd, p['a0'], p['a1'], bytes(data))[:24]
    if packed != exp:
        out.append(fail(p, 'packed header differs from the independent encoder', exp, packed))
    if M.unpack(packed) != (struct.unpack('<I', cmd)[0], p['a0'], p['a1'], len(data), sum(data) & 0xFFFFFFFF):
        out.append(fail(p, 'unpack(pack(m)) must return the original fields', None, M.unpack(packed)))
    return out


def c16_params(budget):
    for name in ('C01', 'C08', 'C09', 'C10', 'C07', 'C15', 'C12', 'C05', 'C03', 'C13', 'C11'):
        gen = PROPS[name][0]
        seen = 0
        for p in gen(budget):
            if p.get('twin') != 'sync':
                continue
            seen += 1
            if budget == 'quick' and name not in ('C12', 'C15') and p.get('point') not in ('late-close', 'zero-limit', 'sync-close') \
                    and seen % (4 if name in ('C01', 'C08', 'C09', 'C10', 'C07') else 3):
                continue
            yield {'of': name, 'p': p}


def c16_run(p):
    """The same scenario through both twins: identical host packet logs and identical outcomes (values / exception types)."""
    out = []
    run = PROPS[p['of']][1]
    from sim import harness
    logs = {}
    fails = {}
    outcomes = {}
    for twin in ('sync', 'async'):
        q = dict(p['p'], twin=twin)
        captured = []
        del harness.OUTCOMES[:]
        orig_init = adbd.Adbd.__init__

        def init(self, *a, **kw):
            orig_init(self, *a, **kw)
            captured.append(self)
        adbd.Adbd.__init__ = init
        try:
            fails[twin] = [f['what'] for f in run(q)]
        finally:
            adbd.Adbd.__init__ = orig_init
        logs[twin] = [d.log for d in captured]
        outcomes[twin] = [o if o[0] == 'exc' else ('ok', o[1].replace('Async', '')) for o in harness.OUTCOMES]
    if outcomes['sync'] != outcomes['async']:
        k = next((i for i, (a, b) in enumerate(zip(outcomes['sync'], outcomes['async'])) if a != b), min(len(outcomes['sync']), len(outcomes['async'])))
        out.append(fail(p, 'the twins must return the same values / raise the same exception types', str(outcomes['sync'][k:k + 1])[:300], str(outcomes['async'][k:k + 1])[:300]))
    if logs['sync'] != logs['async']:
        out.append(fail(p, 'the async twin must send byte-for-byte the same packets as the sync twin', 'equal host packet logs',
                        'first difference at packet %s' % next((i for i, (a, b) in enumerate(zip(sum(logs['sync'], []), sum(logs['async'], []))) if a != b), 'length')))
    if fails['sync'] != fails['async']:
        out.append(fail(p, 'the twins must agree on results / exception types', fails['sync'][:2], fails['async'][:2]))
    return out


PROPS = {
    'C01': (c01_params, c01_run), 'C02': (c02_params, c02_run), 'C03': (c03_params, c03_run), 'C05': (c05_params, c05_run),
    'C07': (c07_params, c07_run), 'C08': (c08_params, c08_run), 'C09': (c09_params, c09_run), 'C10': (c10_params, c10_run),
    'C11': (c11_params, c11_run), 'C12': (c12_params, c12_run), 'C13': (c13_params, c13_run), 'C14': (c14_params, c14_run),
    'C15': (c15_params, c15_run), 'C19': (c19_params, c19_run),
}
PROPS['C16'] = (c16_params, c16_run)
# C04's monitor runs inside the scenarios of these properties
ALSO = {'C04': ['C01', 'C07', 'C08', 'C09', 'C10', 'C11'], 'C02': ['C01', 'C07'], 'C06': ['C01', 'C19'], 'C14': ['C06'], 'C16': ['C18']}


from sim import scenarios_ext      # noqa: E402,F401  (registers C17, C18, C20)
