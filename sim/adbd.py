"""An in-memory adbd: device side of the ADB protocol (CNXN/AUTH, OPEN, shell/exec/sync services, stop-and-wait),
a protocol monitor for the host's packets, and an in-memory transport with scripted read fragmentation / short writes /
stalls / faults and a virtual clock.  Used by sim/scenarios.py as the BOUNDED stand-in and to replay failures on the real code.

Nothing here imports the library's packing code: frames are built and parsed independently (struct only).
"""
import struct
import random

CMDS = {b'AUTH', b'CLSE', b'CNXN', b'OKAY', b'OPEN', b'SYNC', b'WRTE'}
SYNC_IDS = {b'DATA', b'DENT', b'DONE', b'FAIL', b'LIST', b'OKAY', b'QUIT', b'RECV', b'SEND', b'STAT'}
VERSION = 0x01000000
AUTH_TOKEN, AUTH_SIGNATURE, AUTH_RSAPUBLICKEY = 1, 2, 3


def frame(cmd, a0, a1, data=b''):
    c = struct.unpack('<I', cmd)[0]
    return struct.pack('<6I', c, a0, a1, len(data), sum(data) & 0xFFFFFFFF, c ^ 0xFFFFFFFF) + bytes(data)


def rec(sid, payload=b'', size=None):
    return sid + struct.pack('<I', len(payload) if size is None else size) + bytes(payload)


class ProtocolError(AssertionError):
    pass


class Clock(object):
    def __init__(self):
        self.now = 1000.0

    def time(self):
        return self.now


class Stream(object):
    def __init__(self, local, remote, dest):
        self.local, self.remote, self.dest = local, remote, dest
        self.out = []               # payloads the device still wants to write (each waits for the host's OKAY)
        self.awaiting_okay = False  # the device sent a WRTE and waits for OKAY
        self.host_unacked = False   # the host sent a WRTE the device has not acknowledged yet
        self.inbox = bytearray()    # sync bytes from the host
        self.closing = False        # device wants to close once `out` is drained
        self.closed_by_device = False
        self.closed_by_host = False
        self.written = []           # payloads actually written by the device (oracle for C01)
        self.okays_owed = 0         # device WRTEs delivered and not yet acknowledged by the host
        self.host_clse = 0
        self.push = None


class Adbd(object):
    """The device.  `fs`: path -> bytes (files) ; dirs: path -> list of (name, mode, size, mtime)."""

    def __init__(self, maxdata=4096, remote_base=0x51, shell=None, fs=None, dirs=None, stats=None, auth=None, wrte_plan=None, data_plan=None,
                 fail=None, okay_delay=False, strict=True, banner=b'device::sim\0', version=VERSION):
        self.maxdata = maxdata
        self.next_remote = remote_base
        self.shell = shell or (lambda cmd: [])
        self.fs = dict(fs or {})
        self.dirs = dict(dirs or {})
        self.stats = dict(stats or {})
        self.auth = auth                 # None = no authentication; else dict(accept=fn(sig, token)->bool, accept_pubkey=bool, tokens=[...])
        self.wrte_plan = wrte_plan       # list of WRTE payload sizes for sync replies (cyclic); None = one WRTE per reply
        self.data_plan = data_plan       # list of DATA record sizes for RECV (cyclic); None = 64 KiB
        self.fail = fail or {}           # {'recv': (after_records, reason)} / {'send': ('first'|'mid'|'done', reason, before_okay)}
        self.okay_delay = okay_delay     # send the device's own WRTE before acknowledging the host's WRTE (full duplex)
        self.strict = strict
        self.banner = banner
        self.version = version
        self.to_host = bytearray()
        self.from_host = bytearray()
        self.streams = {}
        self.log = []                    # every host packet (cmd, a0, a1, data)
        self.violations = []             # protocol violations by the host (C04 / C02)
        self.connected = False
        self.token_i = 0
        self.last_token = None
        self.sig_log = []
        self.pubkey_log = []
        self.cnxn_log = []
        self.max_wrte = 0
        self.data_sizes = []
        self.pushed = {}                 # path -> dict(mode, data, mtime)
        self.sync_records = []
        self.timers = []                 # [(virtual time, callable)]: things the device does by itself later (a user confirming a key)

    # ---- wire -------------------------------------------------------------------------------------------------
    def reset_session(self):
        self.to_host = bytearray()
        self.from_host = bytearray()
        self.streams = {}
        self.connected = False

    def send(self, cmd, a0, a1, data=b''):
        self.to_host += frame(cmd, a0, a1, data)

    def feed(self, data):
        self.from_host += data
        while len(self.from_host) >= 24:
            c, a0, a1, ln, cs, magic = struct.unpack('<6I', bytes(self.from_host[:24]))
            cmd = struct.pack('<I', c)
            if cmd not in CMDS or magic != (c ^ 0xFFFFFFFF):
                self.violations.append('C02: malformed header %r' % (bytes(self.from_host[:24]),))
                self.from_host = bytearray()
                return
            if len(self.from_host) < 24 + ln:
                return
            payload = bytes(self.from_host[24:24 + ln])
            del self.from_host[:24 + ln]
            if cs != (sum(payload) & 0xFFFFFFFF):
                self.violations.append('C02: bad checksum on %r' % cmd)
            self.log.append((cmd, a0, a1, payload))
            self.handle(cmd, a0, a1, payload)

    def bad(self, msg):
        self.violations.append(msg)

    # ---- protocol -----------------------------------------------------------------------------------------------
    def handle(self, cmd, a0, a1, data):
        if cmd == b'CNXN':
            self.cnxn_log.append((a0, a1, data))
            if self.auth is None:
                self.connected = True
                self.send(b'CNXN', self.version, self.maxdata, self.banner)
            else:
                self.challenge()
            return
        if cmd == b'AUTH':
            if a0 == AUTH_SIGNATURE:
                self.sig_log.append((data, self.last_token))
                if self.auth['accept'](data, self.last_token):
                    self.connected = True
                    self.send(b'CNXN', self.version, self.maxdata, self.banner)
                else:
                    self.challenge()
            elif a0 == AUTH_RSAPUBLICKEY:
                self.pubkey_log.append(data)
                if self.auth.get('accept_pubkey'):
                    self.connected = True
                    self.send(b'CNXN', self.version, self.maxdata, self.banner)
            return
        if not self.connected:
            self.bad('C13: %r sent while not connected' % cmd)
            return
        if cmd == b'OPEN':
            if a0 == 0 or a0 >= 2 ** 32:
                self.bad('C14: OPEN with local id %d' % a0)
            if a1 != 0:
                self.bad('C04: OPEN with arg1=%d' % a1)
            if not data.endswith(b'\0') or len(data) < 2:
                self.bad('C04: OPEN destination not NUL-terminated: %r' % data)
            if a0 in self.streams:
                self.bad('C14: OPEN reuses the live local id %d' % a0)
            self.next_remote += 1
            st = Stream(a0, self.next_remote, data[:-1])
            self.streams[a0] = st
            self.send(b'OKAY', st.remote, a0)
            self.start_service(st)
            self.pump(st)
            return
        st = self.streams.get(a0)
        if st is None:
            self.bad('C04: %r for unknown/closed stream local=%d remote=%d' % (cmd, a0, a1))
            return
        if a1 != st.remote:
            self.bad('C04: %r carries remote id %d, device announced %d (local %d)' % (cmd, a1, st.remote, a0))
            if self.strict:
                return                      # a real adbd drops packets for unknown sockets
        if cmd == b'OKAY':
            if st.okays_owed <= 0:
                self.bad('C04: OKAY although no device WRTE awaits acknowledgement (stream %d)' % a0)
            else:
                st.okays_owed -= 1
            st.awaiting_okay = False
            self.pump(st)
            if self.okay_delay == 2 and st.host_unacked and not st.awaiting_okay and not st.out:
                self.ack_host(st)             # the device acknowledges the host's WRTE only after all its own writes got through
        elif cmd == b'WRTE':
            if st.host_unacked:
                self.bad('C04: second WRTE before the previous one was acknowledged (stream %d)' % a0)
            if len(data) > self.maxdata:
                self.bad('C07: WRTE payload %d exceeds maxdata %d' % (len(data), self.maxdata))
            self.max_wrte = max(self.max_wrte, len(data))
            st.host_unacked = True
            st.inbox += data
            if not self.okay_delay:
                self.ack_host(st)
            self.sync_service(st)
            if self.okay_delay:
                self.pump(st, force=True)     # device writes first (e.g. its FAIL), acknowledges afterwards
                if self.okay_delay != 2 or not st.awaiting_okay:
                    self.ack_host(st)
            self.pump(st)
        elif cmd == b'CLSE':
            st.host_clse += 1
            if st.host_clse > 1:
                self.bad('C04: more than one CLSE on stream %d' % a0)
            if not st.closed_by_device:
                self.send(b'CLSE', 0 if getattr(self, 'clse_zero_remote', False) else st.remote, a0)
            st.closed_by_host = True
            del self.streams[a0]
            self.closed = getattr(self, 'closed', []) + [st]
        else:
            self.bad('C04: unexpected %r on a stream' % cmd)

    def ack_host(self, st):
        if st.host_unacked:
            st.host_unacked = False
            self.send(b'OKAY', st.remote, st.local)

    def challenge(self):
        toks = self.auth.get('tokens')
        tok = toks[self.token_i % len(toks)] if toks else bytes((self.token_i * 7 + k) & 0xFF for k in range(20))
        self.token_i += 1
        self.last_token = tok
        self.send(b'AUTH', AUTH_TOKEN, 0, tok)

    def pump(self, st, force=False):
        """Device writes are stop-and-wait: the next WRTE only after the host's OKAY for the previous one."""
        if st.local not in self.streams:
            return
        if st.out and not st.awaiting_okay:
            p = st.out.pop(0)
            st.awaiting_okay = True
            st.okays_owed += 1
            st.written.append(p)
            self.send(b'WRTE', st.remote, st.local, p)
        elif not st.out and not st.awaiting_okay and st.closing and not st.closed_by_device:
            st.closed_by_device = True
            self.send(b'CLSE', st.remote, st.local)

    # ---- services -----------------------------------------------------------------------------------------------------
    def start_service(self, st):
        d = st.dest
        if d.startswith(b'shell:') or d.startswith(b'exec:') or d.startswith(b'root:'):
            st.out = [bytes(c) for c in self.shell(d)]
            st.closing = True
        elif d == b'sync:':
            pass
        elif d.startswith(b'reboot:'):
            st.closing = True
        else:
            st.closing = True

    def reply(self, st, payload):
        """Queue sync bytes for the host, cut into WRTE payloads according to wrte_plan."""
        if self.wrte_plan is None:
            st.out.append(bytes(payload))
            return
        i = 0
        k = getattr(st, 'plan_i', 0)
        while i < len(payload):
            n = max(1, self.wrte_plan[k % len(self.wrte_plan)])
            k += 1
            st.out.append(bytes(payload[i:i + n]))
            i += n
        st.plan_i = k

    def sync_service(self, st):
        if st.dest != b'sync:':
            return
        inbox = st.inbox
        while len(inbox) >= 8:
            sid = bytes(inbox[:4])
            size = struct.unpack('<I', bytes(inbox[4:8]))[0]
            if sid not in SYNC_IDS:
                self.bad('sync: unknown id %r' % sid)
                del inbox[:]
                return
            if sid == b'DONE':
                del inbox[:8]
                self.sync_records.append((sid, size, b''))
                self.on_done(st, size)
                continue
            if len(inbox) < 8 + size:
                return
            payload = bytes(inbox[8:8 + size])
            del inbox[:8 + size]
            self.sync_records.append((sid, size, payload))
            if sid == b'STAT':
                mode, sz, mt = self.stats.get(payload, (0, 0, 0))
                self.reply(st, b'STAT' + struct.pack('<3I', mode, sz, mt))
            elif sid == b'LIST':
                out = b''
                for name, mode, sz, mt in self.dirs.get(payload, []):
                    out += b'DENT' + struct.pack('<4I', mode, sz, mt, len(name)) + name
                out += b'DONE' + struct.pack('<4I', 0, 0, 0, 0)
                self.reply(st, out)
            elif sid == b'RECV':
                self.on_recv(st, payload)
            elif sid == b'SEND':
                path, _, mode = payload.rpartition(b',')
                st.push = {'path': path, 'mode': mode, 'data': bytearray(), 'ndata': 0}
                f = self.fail.get('send')
                if f and f[0] == 'first':
                    self.reply(st, rec(b'FAIL', f[1]))
                    st.push['failed'] = True
            elif sid == b'DATA':
                if st.push is None:
                    self.bad('C07: DATA before SEND')
                    continue
                if size > 65536:
                    self.bad('C07: DATA chunk of %d bytes exceeds 64 KiB' % size)
                if size == 0:
                    self.bad('C07: empty DATA chunk')
                self.data_sizes.append(size)
                st.push['data'] += payload
                st.push['ndata'] += 1
                f = self.fail.get('send')
                if f and f[0] == 'mid' and st.push['ndata'] == f[2] and not st.push.get('failed'):
                    self.reply(st, rec(b'FAIL', f[1]))
                    st.push['failed'] = True
            elif sid == b'QUIT':
                st.closing = True

    def on_done(self, st, mtime):
        if st.push is None:
            self.bad('C07: DONE without SEND')
            return
        f = self.fail.get('send')
        if st.push.get('failed'):
            return
        if f and f[0] == 'done':
            self.reply(st, rec(b'FAIL', f[1]))
            return
        if f and f[0] == 'badstatus':
            self.reply(st, rec(f[1], b''))
            return
        self.pushed[bytes(st.push['path'])] = {'mode': bytes(st.push['mode']), 'data': bytes(st.push['data']), 'mtime': mtime}
        st.push = None
        self.reply(st, rec(b'OKAY', b''))

    def on_recv(self, st, path):
        f = self.fail.get('recv')
        content = self.fs.get(path)
        if content is None and not f:
            self.reply(st, rec(b'FAIL', b'No such file or directory'))
            return
        content = content or b''
        out = b''
        i = 0
        k = 0
        nrec = 0
        while i < len(content):
            if f and f[0] == nrec:
                out += rec(b'FAIL', f[1])
                self.reply(st, out)
                return
            if self.data_plan and self.data_plan[k % len(self.data_plan)] == 0 and any(self.data_plan):
                out += rec(b'DATA', b'')           # a zero-length DATA record (legal: the size field is 0)
                k += 1
                nrec += 1
                continue
            n = 65536 if not self.data_plan else max(1, min(65536, self.data_plan[k % len(self.data_plan)]))
            k += 1
            out += rec(b'DATA', content[i:i + n])
            i += n
            nrec += 1
        if f and (f[0] == nrec or f[0] == 'done'):
            out += rec(b'FAIL', f[1])
        else:
            out += rec(b'DONE', b'', 0)
        self.reply(st, out)


class Fault(Exception):
    pass


class SimTransportCore(object):
    """Transport behaviour shared by the sync and async wrappers."""

    def __init__(self, dev, clock=None, frag=None, write_cap=None, seed=0, stall='raise', fault_at=None, timeout_exc=None, chatter=None):
        self.dev = dev
        self.clock = clock or Clock()
        self.frag = frag             # None = whole; int = max bytes per read; 'rand' = random 1..n; list = cyclic sizes (0 = empty read)
        self.write_cap = write_cap   # None = unlimited; int / list = bytes accepted per bulk_write
        self.rng = random.Random(seed)
        self.stall = stall           # what a read does when the device has nothing to say: 'raise' (timeout error) | 'empty'
        self.fault_at = fault_at     # set of transport call indices at which to raise Fault
        self.timeout_exc = timeout_exc
        self.chatter = chatter       # callable() -> bytes: traffic for other streams injected when the device is silent
        self.calls = 0
        self.read_requests = []      # (numbytes, remaining bytes of the current frame) for C03
        self.written = bytearray()
        self.wi = 0
        self.ri = 0
        self.timeouts_seen = []
        self.frame_left = 0
        self.open = False
        self.max_virtual = None

    def _tick(self, kind):
        i = self.calls
        self.calls += 1
        self.clock.now += 1e-4          # real time always advances a little (A-PROGRESS)
        if self.max_virtual is not None and self.clock.now > self.max_virtual:
            raise Fault('virtual-time watchdog: operation still running after %.1f virtual seconds' % (self.clock.now - 1000.0))
        if self.fault_at and i in self.fault_at:
            raise Fault('injected %s fault at transport call %d' % (kind, i))

    def close(self):
        self._tick('close')
        self.open = False

    def connect(self, t):
        self._tick('connect')
        self.dev.reset_session()
        self.frame_left = 0
        self.open = True

    def bulk_write(self, data, t):
        self._tick('write')
        self.timeouts_seen.append(('w', t))
        data = bytes(data)
        cap = self.write_cap
        if isinstance(cap, list):
            cap = cap[self.wi % len(cap)]
            self.wi += 1
        n = len(data) if cap is None else min(len(data), cap)
        self.written += data[:n]
        self.dev.feed(data[:n])
        return n

    def bulk_read(self, numbytes, t):
        self._tick('read')
        self.timeouts_seen.append(('r', t))
        buf = self.dev.to_host
        if not buf and self.chatter is not None:
            extra = self.chatter()
            if extra:
                self.clock.now += 0.2 if t is None else min(0.2, max(t, 0))
                buf += extra
        if not buf and getattr(self.dev, 'timers', None):
            # the device does something by itself within the time this read is willing to wait
            self.dev.timers.sort(key=lambda x: x[0])
            when, fn = self.dev.timers[0]
            if t is None or when <= self.clock.now + max(t, 0):
                self.dev.timers.pop(0)
                self.clock.now = max(self.clock.now, when)
                fn()
                buf = self.dev.to_host
        if not buf:
            if t is None:
                raise Fault('blocking read with nothing to read (would hang forever)')
            self.clock.now += max(t, 0)
            if self.max_virtual is not None and self.clock.now > self.max_virtual:
                raise Fault('virtual-time watchdog: operation still waiting after %.1f s' % (self.clock.now - 1000.0))
            if self.stall == 'empty':
                return b''
            raise (self.timeout_exc or Fault)('sim: read timed out (%s s)' % t)
        # C03: never request more than remains in the current packet
        remaining = self.frame_left if self.frame_left > 0 else 24
        self.read_requests.append((numbytes, remaining))
        f = self.frag
        if isinstance(f, list):
            f = f[self.ri % len(f)]
            self.ri += 1
        elif f == 'rand':
            f = self.rng.randint(1, max(1, numbytes))
        n = numbytes if f is None else min(numbytes, f)
        n = max(0, min(n, len(buf)))
        out = bytes(buf[:n])
        del buf[:n]
        for b in out:                      # track the frame boundaries of the device stream
            if self.frame_left == 0:
                self.frame_left, self.in_header, self._hdr = 24, True, b''
            self.frame_left -= 1
            if self.in_header:
                self._hdr += bytes([b])
                if self.frame_left == 0:
                    self.frame_left = struct.unpack('<6I', self._hdr)[3]
                    self.in_header = False
        return out
