"""Drives the REAL adb_shell code (from the tree given by PYVC_REPO, default /repo) against the simulated adbd:
one interface for the sync and the async twin, a virtual clock patched into the library's `time` references."""
import asyncio
import importlib
import os
import sys

REPO = os.environ.get('PYVC_REPO', '/repo')
if REPO not in sys.path:
    sys.path.insert(0, REPO)

from sim import adbd      # noqa: E402


def lib():
    mods = {}
    for name in ('adb_shell.constants', 'adb_shell.exceptions', 'adb_shell.adb_message', 'adb_shell.hidden_helpers', 'adb_shell.adb_device',
                 'adb_shell.adb_device_async', 'adb_shell.transport.base_transport', 'adb_shell.transport.base_transport_async'):
        mods[name.split('.')[-1]] = importlib.import_module(name)
    assert os.path.abspath(mods['adb_device'].__file__).startswith(os.path.abspath(REPO)), (mods['adb_device'].__file__, REPO)
    return mods


L = lib()
EXC = L['exceptions']


def make_transports():
    Base = L['base_transport'].BaseTransport
    BaseA = L['base_transport_async'].BaseTransportAsync

    class SimTransport(Base):
        def __init__(self, core):
            self.core = core

        def close(self):
            return self.core.close()

        def connect(self, transport_timeout_s):
            return self.core.connect(transport_timeout_s)

        def bulk_read(self, numbytes, transport_timeout_s):
            return self.core.bulk_read(numbytes, transport_timeout_s)

        def bulk_write(self, data, transport_timeout_s):
            return self.core.bulk_write(data, transport_timeout_s)

    class SimTransportAsync(BaseA):
        def __init__(self, core):
            self.core = core

        async def close(self):
            return self.core.close()

        async def connect(self, transport_timeout_s):
            return self.core.connect(transport_timeout_s)

        async def bulk_read(self, numbytes, transport_timeout_s):
            return self.core.bulk_read(numbytes, transport_timeout_s)

        async def bulk_write(self, data, transport_timeout_s):
            return self.core.bulk_write(data, transport_timeout_s)
    return SimTransport, SimTransportAsync


SimTransport, SimTransportAsync = make_transports()


class FakeTime(object):
    def __init__(self, clock):
        self.clock = clock

    def time(self):
        return self.clock.now

    def sleep(self, s):
        self.clock.now += s


class Host(object):
    """The real AdbDevice / AdbDeviceAsync over the simulated transport."""

    def __init__(self, dev, twin='sync', default_timeout=None, banner='sim', **core_kw):
        self.twin = twin
        self.dev = dev
        core_kw.setdefault('timeout_exc', EXC.TcpTimeoutException)
        self.core = adbd.SimTransportCore(dev, **core_kw)
        self.clock = self.core.clock
        ft = FakeTime(self.clock)
        L['adb_device'].time = ft
        L['adb_device_async'].time = ft
        if twin == 'sync':
            self.d = L['adb_device'].AdbDevice(SimTransport(self.core), default_transport_timeout_s=default_timeout, banner=banner)
        else:
            self.loop = asyncio.new_event_loop()
            self.d = L['adb_device_async'].AdbDeviceAsync(SimTransportAsync(self.core), default_transport_timeout_s=default_timeout, banner=banner)

    def call(self, name, *a, **kw):
        f = getattr(self.d, name)
        if self.twin == 'sync':
            r = f(*a, **kw)
            if name == 'streaming_shell':
                return list(r)
            return r
        if name == 'streaming_shell':
            async def collect():
                return [x async for x in f(*a, **kw)]
            return self.loop.run_until_complete(collect())
        return self.loop.run_until_complete(f(*a, **kw))

    @property
    def available(self):
        return self.d.available

    def finish(self):
        if self.twin != 'sync':
            try:
                self.loop.run_until_complete(self.loop.shutdown_asyncgens())
            except Exception:      # noqa
                pass
            self.loop.close()


OUTCOMES = []       # every outcome observed since the list was last cleared: ('ok', repr(result)) | ('exc', class name)   (used by C16)


def outcome(fn):
    """(kind, value): ('ok', result) or ('exc', ExceptionClassName, str)."""
    try:
        r = ('ok', fn())
        OUTCOMES.append(('ok', repr(r[1])[:2000]))
        return r
    except adbd.Fault as e:
        OUTCOMES.append(('exc', 'Fault'))
        return ('exc', 'Fault', str(e))
    except Exception as e:      # noqa
        OUTCOMES.append(('exc', type(e).__name__))
        return ('exc', type(e).__name__, str(e)[:200])
