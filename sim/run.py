"""python -m sim.run <property> [--budget quick|thorough] [--max-fail N] [--out FILE] [--replay FILE]
Runs the bounded scenario set of a property on the real code of PYVC_REPO (default /repo); exit 0 = all passed, 1 = failures."""
import json
import os
import signal
import sys
import time
import traceback

sys.path.insert(0, os.path.dirname(os.path.dirname(os.path.abspath(__file__))))

from sim import scenarios as S      # noqa: E402


class Hung(BaseException):
    """Raised by the watchdog (SIGALRM) inside a scenario that makes no progress in real time: a blocked lock acquire, an await that
    never completes, an unbounded loop.  BaseException so that no `except Exception` of the code under test swallows it."""


HANG_SECONDS = 20


def _alarm(signum, frame):
    raise Hung()


def guarded(run, p):
    signal.signal(signal.SIGALRM, _alarm)
    signal.setitimer(signal.ITIMER_REAL, HANG_SECONDS)
    try:
        return run(p)
    except Hung:
        return [S.fail(p, 'the operation hangs: no result and no error within %d s of real time (virtual clock irrelevant)' % HANG_SECONDS,
                       'a result or an exception', 'still blocked')]
    finally:
        signal.setitimer(signal.ITIMER_REAL, 0)


def run_prop(prop, budget, max_fail, only_filter=None):
    names = [prop] if prop in S.PROPS else []
    names += [n for n in S.ALSO.get(prop, []) if n in S.PROPS]
    failures, total = [], 0
    t0 = time.time()
    limit = 150 if budget == 'quick' else 1500
    for name in names:
        gen, run = S.PROPS[name]
        for p in gen(budget):
            if time.time() - t0 > limit:
                break
            total += 1
            try:
                fs = guarded(run, p)
            except Exception as e:      # noqa
                fs = [S.fail(p, 'scenario crashed: %r' % (e,), None, traceback.format_exc()[-600:])]
            for f in fs:
                f['scenario_of'] = name
                if only_filter and not only_filter(f):
                    continue
                failures.append(f)
            if len(failures) >= max_fail:
                return failures, total
    return failures, total


def main():
    a = sys.argv[1:]
    if '--replay' in a:
        rec = json.load(open(a[a.index('--replay') + 1]))
        sc = rec.get('scenario') or rec
        name, p = sc['scenario_of'], sc['params']
        fs = guarded(S.PROPS[name][1], p)
        print(json.dumps({'replayed': name, 'params': p, 'failures': fs}, indent=1, default=repr)[:4000])
        print('REPLAY-VIOLATION' if fs else 'REPLAY-PASS')
        return 1 if fs else 0
    prop = a[0]
    budget = a[a.index('--budget') + 1] if '--budget' in a else 'quick'
    max_fail = int(a[a.index('--max-fail') + 1]) if '--max-fail' in a else 3
    only = None
    if prop == 'C04':
        only = lambda f: 'C04' in f['what'] or 'protocol monitor' in f['what']      # noqa
    if prop == 'C02':
        only = lambda f: 'C02' in f['what'] or f['scenario_of'] == 'C02'      # noqa
    failures, total = run_prop(prop, budget, max_fail, only)
    out = {'property': prop, 'budget': budget, 'scenarios_run': total, 'failures': failures, 'bounds': S.BOUNDS.get(prop, ''),
           'repo': os.environ.get('PYVC_REPO', '/repo')}
    if '--out' in a:
        json.dump(out, open(a[a.index('--out') + 1], 'w'), indent=1, default=repr)
    print('SIM property=%s scenarios=%d failures=%d' % (prop, total, len(failures)))
    for f in failures[:3]:
        print('  FAIL %s | params=%s' % (f['what'][:200], json.dumps(f['params'], default=repr)[:200]))
    return 1 if failures else 0


if __name__ == '__main__':
    sys.exit(main())
