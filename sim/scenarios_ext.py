"""Bounded scenario sets for the properties whose subject is not the ADB protocol engine: C17 (key material, checked against the
`cryptography` package as an independent reference), C18 (TCP transports on real loopback sockets) and C20 (USB transport on a fake,
documentation-conforming `usb1` module).  Registered into sim.scenarios.PROPS; same conventions (see there)."""
import base64
import importlib
import os
import random
import shutil
import socket
import struct
import sys
import tempfile
import threading
import time as real_time
import types
from io import BytesIO

from sim import adbd
from sim.harness import L, EXC
from sim.scenarios import fail, outcome, PROPS, BOUNDS

BOUNDS['C17'] = ('1 (quick) / 3 (thorough) freshly generated 2048-bit keys; tokens: all-zero, all-0xFF, random, plus tokens whose reference '
                 'signature starts with zero bytes (searched with the reference implementation); 3 signers; blob decoded independently')
BOUNDS['C18'] = ('loopback sockets, real time: 6 peer fragmentations x 4 request-size plans; silent peer with timeouts {0.1, 0.25}; data before / '
                 'after the next read; small socket buffers with 1-3 MiB writes; close twice and reconnect; one connect/shell/push/pull session; 2 transports')
BOUNDS['C20'] = ('fake usb1 backend: timeouts {None, 0, 0.5, 1.5, 2, 9.25} incl. a fractional default; short transfers {1, 7, 64}; endpoint orders; '
                 'interface numbers {0, 1, 3}; USBError injected at every backend call index of a connect/write/read/close history; every call from index 4..8 on failing (NoDevice, IO, Pipe) '
                 'incl. the serial number lookup; one session')


def mod(name):
    return importlib.import_module('adb_shell.' + name)


# =====================================================================================================================
# C17

_KEYS = {}


def c17_key(i):
    """A freshly generated key pair (by the real keygen), kept for the whole run: (directory, private key path)."""
    if i not in _KEYS:
        d = tempfile.mkdtemp(prefix='c17key_')
        path = os.path.join(d, 'adbkey')
        mod('auth.keygen').keygen(path)
        _KEYS[i] = (d, path)
    return _KEYS[i]


def c17_cleanup():
    for d, _ in _KEYS.values():
        shutil.rmtree(d, ignore_errors=True)
    _KEYS.clear()


def ref_private(path):
    from cryptography.hazmat.primitives import serialization
    with open(path, 'rb') as f:
        return serialization.load_pem_private_key(f.read(), password=None)


def ref_sign(priv, token):
    from cryptography.hazmat.primitives import hashes
    from cryptography.hazmat.primitives.asymmetric import padding, utils
    return priv.sign(token, padding.PKCS1v15(), utils.Prehashed(hashes.SHA1()))


def c17_params(budget):
    nkeys = 1 if budget == 'quick' else 3
    for user, host in (('alice', 'devbox'), ('', 'devbox'), ('root', ''), (None, 'buildhost')):
        yield {'what': 'comment', 'user': user, 'host': host}
    for k in range(nkeys):
        yield {'what': 'blob', 'key': k}
        yield {'what': 'sign', 'key': k, 'tokens': 'fixed', 'n': 0}
        yield {'what': 'sign', 'key': k, 'tokens': 'random', 'n': 40 if budget == 'quick' else 200, 'seed': k}
        yield {'what': 'sign', 'key': k, 'tokens': 'leading-zero', 'n': 3000 if budget == 'quick' else 12000, 'seed': 100 + k}
    yield {'what': 'cleanup'}


def c17_run(p):
    out = []
    if p['what'] == 'cleanup':
        c17_cleanup()
        return out
    if p['what'] == 'comment':
        kg = mod('auth.keygen')
        real_login, real_host = kg.os.getlogin, kg.socket.gethostname

        def login():
            if p['user'] is None:
                raise OSError('no controlling terminal')
            return p['user']
        d = tempfile.mkdtemp(prefix='c17cmt_')
        try:
            kg.os.getlogin = login
            kg.socket.gethostname = lambda: p['host']
            path = os.path.join(d, 'adbkey')
            kg.keygen(path)
            with open(path + '.pub', 'rb') as f:
                line = f.read()
        finally:
            kg.os.getlogin, kg.socket.gethostname = real_login, real_host
            shutil.rmtree(d, ignore_errors=True)
        want = b' ' + (p['user'] or 'unknown').encode() + b'@' + (p['host'] or 'unknown').encode()
        if not line.rstrip(b'\n').endswith(want) or line.count(b' ') != 1:
            out.append(fail(p, "the blob must be followed by the ' user@host' comment", want, line[-40:]))
        return out
    _, path = c17_key(p['key'])
    priv = ref_private(path)
    pub = priv.public_key()
    nums = pub.public_numbers()
    n, e = nums.n, nums.e
    if p['what'] == 'blob':
        with open(path + '.pub', 'rb') as f:
            line = f.read()
        b64, sep, comment = line.partition(b' ')
        try:
            blob = base64.b64decode(b64, validate=True)
        except Exception as ex:      # noqa
            return [fail(p, 'public key file must start with valid base64', 'base64', repr(ex))]
        if len(blob) != 524:
            return [fail(p, 'the key blob must be the 524-byte Android RSAPublicKey structure', 524, len(blob))]
        words, n0inv = struct.unpack('<2I', blob[:8])
        modulus = int.from_bytes(blob[8:264], 'little')
        rr = int.from_bytes(blob[264:520], 'little')
        exponent = struct.unpack('<I', blob[520:])[0]
        if words != 64:
            out.append(fail(p, 'blob length field must be 64 words', 64, words))
        if modulus != n:
            out.append(fail(p, 'blob modulus must be the modulus of the private key (little-endian)', n, modulus))
        if exponent != e:
            out.append(fail(p, 'blob exponent must be the public exponent', e, exponent))
        if (n0inv * n + 1) % 2 ** 32 != 0:
            out.append(fail(p, 'blob n0inv must be -1/n mod 2^32', (-pow(n, -1, 2 ** 32)) % 2 ** 32, n0inv))
        if rr != pow(2, 4096, n):
            out.append(fail(p, 'blob rr must be 2^4096 mod n', pow(2, 4096, n), rr))
        if not sep or b'@' not in comment:
            out.append(fail(p, "the blob must be followed by a ' user@host' comment", b' user@host', line[-40:]))
        return out
    # signatures
    from cryptography.hazmat.primitives import hashes
    from cryptography.hazmat.primitives.asymmetric import padding, utils
    from cryptography.exceptions import InvalidSignature
    signers = []
    for name, make in (('PythonRSASigner', lambda: mod('auth.sign_pythonrsa').PythonRSASigner.FromRSAKeyPath(path)),
                       ('CryptographySigner', lambda: mod('auth.sign_cryptography').CryptographySigner(path)),
                       ('PycryptodomeAuthSigner', lambda: mod('auth.sign_pycryptodome').PycryptodomeAuthSigner(path))):
        try:
            signers.append((name, make()))
        except Exception as ex:      # noqa
            out.append(fail(p, '%s cannot load a key file written by keygen' % name, 'a signer', repr(ex)))
    rnd = random.Random(p.get('seed', 0))
    if p['tokens'] == 'fixed':
        tokens = [b'\x00' * 20, b'\xff' * 20, bytes(range(20)), b'\x00' * 19 + b'\x01']
    elif p['tokens'] == 'random':
        tokens = [bytes(rnd.getrandbits(8) for _ in range(20)) for _ in range(p['n'])]
    else:
        # tokens whose (deterministic) PKCS#1 v1.5 signature starts with a zero byte: found with the reference implementation
        tokens = []
        for _ in range(p['n']):
            t = bytes(rnd.getrandbits(8) for _ in range(20))
            if ref_sign(priv, t)[0] == 0:
                tokens.append(t)
    for t in tokens:
        want = ref_sign(priv, t)
        for name, s in signers:
            r = outcome(lambda: s.Sign(t))
            if r[0] != 'ok':
                out.append(fail(dict(p, token=t.hex()), '%s.Sign must sign every 20-byte token' % name, 'a signature', r))
                continue
            sig = bytes(r[1])
            ok = len(sig) == 256
            if ok:
                try:
                    pub.verify(sig, t, padding.PKCS1v15(), utils.Prehashed(hashes.SHA1()))
                except InvalidSignature:
                    ok = False
            if not ok or sig != want:
                out.append(fail(dict(p, token=t.hex()), '%s.Sign must be the 256-byte RSASSA-PKCS1-v1_5 signature over the token taken as a SHA-1 digest' % name,
                                want.hex()[:40] + '...', (len(sig), sig.hex()[:40] + '...')))
        if len(out) >= 3:
            break
    return out


PROPS['C17'] = (c17_params, c17_run)


# =====================================================================================================================
# C18: real loopback sockets

class Peer(object):
    """A scripted TCP peer on 127.0.0.1 run by a thread.  `script(conn, peer)` does the peer's side."""

    def __init__(self, script, rcvbuf=None):
        self.srv = socket.socket(socket.AF_INET, socket.SOCK_STREAM)
        self.srv.setsockopt(socket.SOL_SOCKET, socket.SO_REUSEADDR, 1)
        if rcvbuf:
            self.srv.setsockopt(socket.SOL_SOCKET, socket.SO_RCVBUF, rcvbuf)
        self.srv.bind(('127.0.0.1', 0))
        self.srv.listen(4)
        self.port = self.srv.getsockname()[1]
        self.script = script
        self.received = bytearray()
        self.events = {}
        self.error = None
        self.stop = False
        self.thread = threading.Thread(target=self._run, daemon=True)
        self.thread.start()

    def event(self, name):
        return self.events.setdefault(name, threading.Event())

    def _run(self):
        try:
            self.srv.settimeout(5)
            while not self.stop:
                try:
                    conn, _ = self.srv.accept()
                except socket.timeout:
                    return
                except OSError:
                    return
                try:
                    self.script(conn, self)
                finally:
                    try:
                        conn.close()
                    except OSError:
                        pass
        except Exception as e:      # noqa
            self.error = repr(e)

    def close(self):
        self.stop = True
        try:
            self.srv.close()
        except OSError:
            pass
        self.thread.join(2)


class TcpClient(object):
    """One interface over TcpTransport and TcpTransportAsync."""

    def __init__(self, kind, port):
        self.kind = kind
        if kind == 'sync':
            self.t = mod('transport.tcp_transport').TcpTransport('127.0.0.1', port)
        else:
            import asyncio
            self.loop = asyncio.new_event_loop()
            self.t = mod('transport.tcp_transport_async').TcpTransportAsync('127.0.0.1', port)

    def call(self, name, *a):
        f = getattr(self.t, name)
        if self.kind == 'sync':
            return f(*a)
        return self.loop.run_until_complete(f(*a))

    def finish(self):
        try:
            self.call('close')
        except Exception:      # noqa
            pass
        if self.kind != 'sync':
            self.loop.close()


def c18_params(budget):
    for kind in ('sync', 'async'):
        for pieces in ([4000], [1] * 40 + [3960], [24, 3976], [7, 0, 13, 1000, 2980], [1000, 1000, 1000, 1000], 'rand'):
            for req in ([4096], [24, 4096], [1, 2, 3, 5, 8, 13, 4096], [100]):
                yield {'what': 'frag', 'kind': kind, 'pieces': pieces, 'req': req}
        for t in (0.1, 0.25):
            for when in ('after-next-read', 'before-next-read'):
                yield {'what': 'timeout', 'kind': kind, 't': t, 'when': when}
        for size in ((1 << 20), (3 << 20)) if budget != 'quick' else ((1 << 20),):
            yield {'what': 'bigwrite', 'kind': kind, 'size': size}
        yield {'what': 'reconnect', 'kind': kind}
        yield {'what': 'blocking-read', 'kind': kind, 'connect_t': 1.0}
        yield {'what': 'blocking-read', 'kind': kind, 'connect_t': None}
        yield {'what': 'peer-abort', 'kind': kind}
        yield {'what': 'poll', 'kind': kind}
        for req in (65536, 4096):
            yield {'what': 'stream', 'kind': kind, 'req': req}
        yield {'what': 'session', 'kind': kind}


def c18_run(p):
    TMO = EXC.TcpTimeoutException
    out = []
    if p['what'] == 'frag':
        payload = bytes((i * 7 + 3) % 251 for i in range(4000))
        pieces = p['pieces']
        if pieces == 'rand':
            rnd = random.Random(18)
            pieces, left = [], 4000
            while left:
                k = min(left, rnd.randint(1, 900))
                pieces.append(k)
                left -= k

        def script(conn, peer):
            pos = 0
            for k in pieces:
                if k:
                    conn.sendall(payload[pos:pos + k])
                    pos += k
                real_time.sleep(0.002)
            peer.event('done').wait(5)
        peer = Peer(script)
        c = TcpClient(p['kind'], peer.port)
        try:
            c.call('connect', 1.0)
            got = bytearray()
            i = 0
            deadline = real_time.time() + 10
            while len(got) < len(payload) and real_time.time() < deadline:
                n = p['req'][min(i, len(p['req']) - 1)]
                i += 1
                r = outcome(lambda: c.call('bulk_read', n, 1.0))
                if r[0] != 'ok':
                    out.append(fail(p, 'bulk_read must deliver the bytes the peer sent', 'bytes', r))
                    break
                if len(r[1]) > n:
                    out.append(fail(p, 'bulk_read must return at most the requested number of bytes', n, len(r[1])))
                got += r[1]
            if not out and bytes(got) != payload:
                out.append(fail(p, "successive reads must return the peer's bytes in order without loss or duplication", len(payload), (len(got), bytes(got[:16]))))
        finally:
            peer.event('done').set()
            c.finish()
            peer.close()
        return out
    if p['what'] == 'timeout':
        data = bytes(range(200)) * 15      # 3000 bytes

        def script(conn, peer):
            peer.event('go').wait(10)
            conn.sendall(data)
            peer.event('done').wait(10)
        peer = Peer(script)
        c = TcpClient(p['kind'], peer.port)
        try:
            c.call('connect', 1.0)
            t0 = real_time.time()
            r = outcome(lambda: c.call('bulk_read', 100, p['t']))
            dt = real_time.time() - t0
            if r[:2] != ('exc', 'TcpTimeoutException'):
                out.append(fail(p, 'a read with nothing to read must raise TcpTimeoutException', 'TcpTimeoutException', r))
            elif dt < 0.8 * p['t'] or dt > p['t'] + 2.0:
                out.append(fail(p, 'the timeout must fire at (about) the requested time', p['t'], round(dt, 3)))
            got = bytearray()
            if p['when'] == 'before-next-read':
                peer.event('go').set()
                real_time.sleep(0.15)
            else:
                threading.Timer(0.1, peer.event('go').set).start()
            deadline = real_time.time() + 5
            while len(got) < len(data) and real_time.time() < deadline:
                r = outcome(lambda: c.call('bulk_read', 100, 0.6))
                if r[0] != 'ok':
                    out.append(fail(p, 'data sent after a timed-out read must still be delivered, in order', 'bytes', r))
                    break
                got += r[1]
            if not out and bytes(got) != data:
                out.append(fail(p, 'no byte may be lost or reordered after a timed-out read', len(data), (len(got), bytes(got[:8]))))
        finally:
            peer.event('go').set()
            peer.event('done').set()
            c.finish()
            peer.close()
        return out
    if p['what'] == 'bigwrite':
        size = p['size']
        data = bytes((i * 13 + 5) % 253 for i in range(4096)) * (size // 4096)

        def script(conn, peer):
            conn.settimeout(3)
            try:
                while len(peer.received) < len(data):
                    real_time.sleep(0.001)
                    b = conn.recv(65536)
                    if not b:
                        break
                    peer.received += b
            except socket.timeout:
                pass
            peer.event('rx').set()
        peer = Peer(script, rcvbuf=8192)
        c = TcpClient(p['kind'], peer.port)
        try:
            c.call('connect', 1.0)
            sock = getattr(c.t, '_connection', None)
            if sock is not None:
                sock.setsockopt(socket.SOL_SOCKET, socket.SO_SNDBUF, 8192)
            # the caller's side of the transport contract (what _write_bytes_to_device does): advance by the returned count
            rest = data
            deadline = real_time.time() + 20
            failed = None
            while rest and real_time.time() < deadline:
                r = outcome(lambda: c.call('bulk_write', rest, 0.5))
                if r[0] != 'ok':
                    failed = r
                    break
                n = r[1]
                if not isinstance(n, int) or n < 0 or n > len(rest):
                    out.append(fail(p, 'bulk_write must return the number of bytes it sent', '0..%d' % len(rest), n))
                    break
                rest = rest[n:]
            if failed is None and not out:
                peer.event('rx').wait(10)
                if bytes(peer.received) != data:
                    out.append(fail(p, 'every byte bulk_write reported as sent must reach the peer, in order', len(data), len(peer.received)))
        finally:
            c.finish()
            peer.close()
        return out
    if p['what'] == 'reconnect':
        def script(conn, peer):
            conn.settimeout(2)
            try:
                b = conn.recv(100)
                conn.sendall(b'echo:' + b)
                conn.recv(1)
            except (socket.timeout, OSError):
                pass
        peer = Peer(script)
        c = TcpClient(p['kind'], peer.port)
        try:
            for round_ in range(2):
                r = outcome(lambda: c.call('connect', 1.0))
                if r[0] != 'ok':
                    out.append(fail(p, 'a closed transport can connect again (round %d)' % round_, 'ok', r))
                    break
                c.call('bulk_write', b'hi%d' % round_, 1.0)
                r = outcome(lambda: c.call('bulk_read', 100, 1.0))
                if r != ('ok', b'echo:hi%d' % round_):
                    out.append(fail(p, 'bytes flow on the (re)connected transport', b'echo:hi%d' % round_, r))
                for _ in range(2):
                    r = outcome(lambda: c.call('close'))
                    if r[0] != 'ok':
                        out.append(fail(p, 'close must be idempotent', 'ok', r))
        finally:
            c.finish()
            peer.close()
        return out
    if p['what'] == 'session':
        return c18_session(p)
    if p['what'] == 'poll':
        data = b'already here'

        def script(conn, peer):
            conn.sendall(data)
            peer.event('done').wait(5)
        peer = Peer(script)
        c = TcpClient(p['kind'], peer.port)
        try:
            c.call('connect', 1.0)
            if p['kind'] == 'sync':
                real_time.sleep(0.3)
            else:
                import asyncio
                c.loop.run_until_complete(asyncio.sleep(0.3))      # the event loop runs, so the bytes reach the stream reader's buffer
            r = outcome(lambda: c.call('bulk_read', 100, 0))
            if r != ('ok', data):
                out.append(fail(p, 'a read with timeout 0 is a poll: bytes that have already arrived must be returned', data, r))
        finally:
            peer.event('done').set()
            c.finish()
            peer.close()
        return out
    if p['what'] == 'stream':
        total = 6 << 20
        block = bytes((i * 31 + 7) % 251 for i in range(1 << 16))

        def script(conn, peer):
            conn.setsockopt(socket.SOL_SOCKET, socket.SO_SNDBUF, 1 << 20)
            sent = 0
            try:
                while sent < total:
                    conn.sendall(block)
                    sent += len(block)
            except OSError:
                pass
            peer.event('done').wait(5)
        peer = Peer(script)
        c = TcpClient(p['kind'], peer.port)
        try:
            c.call('connect', 1.0)
            got = 0
            deadline = real_time.time() + 25
            while got < total and real_time.time() < deadline:
                r = outcome(lambda: c.call('bulk_read', p['req'], 1.0))
                if r[0] != 'ok':
                    out.append(fail(p, 'bulk_read must deliver the bytes of a fast peer', 'bytes', r))
                    break
                if len(r[1]) > p['req']:
                    out.append(fail(p, 'bulk_read must return at most the requested number of bytes (peer streaming faster than we read)', p['req'], len(r[1])))
                    break
                k = got % len(block)
                want = (block * 3)[k:k + len(r[1])]
                if r[1] != want:
                    out.append(fail(p, "successive reads must return the peer's bytes in order without loss or duplication", 'in order', 'mismatch at offset %d' % got))
                    break
                got += len(r[1])
        finally:
            peer.event('done').set()
            c.finish()
            peer.close()
        return out
    if p['what'] == 'blocking-read':
        data = b'late but complete'

        def script(conn, peer):
            real_time.sleep(0.3)
            conn.sendall(data)
            peer.event('done').wait(5)
        peer = Peer(script)
        c = TcpClient(p['kind'], peer.port)
        try:
            c.call('connect', p['connect_t'])
            r = outcome(lambda: c.call('bulk_read', 100, None))
            if r != ('ok', data):
                out.append(fail(p, 'a read without a timeout must wait for the bytes of a pausing peer', data, r))
        finally:
            peer.event('done').set()
            c.finish()
            peer.close()
        return out
    if p['what'] == 'peer-abort':
        import struct as _st

        def script(conn, peer):
            conn.recv(10)
            conn.setsockopt(socket.SOL_SOCKET, socket.SO_LINGER, _st.pack('ii', 1, 0))     # close with RST
        peer = Peer(script)
        c = TcpClient(p['kind'], peer.port)
        try:
            c.call('connect', 1.0)
            c.call('bulk_write', b'x', 1.0)
            real_time.sleep(0.2)
            outcome(lambda: c.call('bulk_read', 10, 0.2))
            for _ in range(2):
                r = outcome(lambda: c.call('close'))
                if r[0] != 'ok':
                    out.append(fail(p, 'close must be idempotent, also after the peer reset the connection', 'ok', r))
            peer2 = Peer(lambda conn, pe: (conn.sendall(b'again'), pe.event('done').wait(3)))
            try:
                if p['kind'] == 'sync':
                    c.t._port = peer2.port
                else:
                    c.t._port = peer2.port
                r = outcome(lambda: c.call('connect', 1.0))
                r2 = outcome(lambda: c.call('bulk_read', 10, 1.0)) if r[0] == 'ok' else r
                if r2 != ('ok', b'again'):
                    out.append(fail(p, 'a closed transport can connect again after a peer reset', b'again', r2))
            finally:
                peer2.event('done').set()
                peer2.close()
        finally:
            c.finish()
            peer.close()
        return out
    return out


def bridge_script(dev, lock):
    """Serve the simulated adbd over a socket: host bytes are fed to it, its output is written back in awkward pieces."""
    def script(conn, peer):
        conn.settimeout(0.02)
        with lock:
            dev.reset_session()
        k = 0
        while not peer.stop and not peer.event('done').is_set():
            try:
                b = conn.recv(1 << 16)
                if not b:
                    return
                with lock:
                    dev.feed(b)
            except socket.timeout:
                pass
            except OSError:
                return
            with lock:
                outb = bytes(dev.to_host)
                del dev.to_host[:]
            while outb:
                k += 1
                n = (1, 23, 5000, 24, 700)[k % 5]
                conn.sendall(outb[:n])
                outb = outb[n:]
    return script


def session_ops(call, push_src):
    res = []
    res.append(call('connect', transport_timeout_s=1.0, read_timeout_s=2.0))
    res.append(call('shell', 'x', decode=False, transport_timeout_s=1.0, read_timeout_s=2.0))
    call('push', BytesIO(push_src), '/q', transport_timeout_s=1.0, read_timeout_s=2.0)
    b = BytesIO()
    call('pull', '/p', b, transport_timeout_s=1.0, read_timeout_s=2.0)
    res.append(b.getvalue())
    res.append(tuple(call('stat', '/p', transport_timeout_s=1.0, read_timeout_s=2.0)))
    call('close')
    return res


def newdev():
    return adbd.Adbd(shell=lambda c: [b'he', b'llo ' * 300], stats={b'/p': (33188, 7, 3)}, dirs={}, fs={b'/p': b'content' * 3000}, maxdata=4096)


def c18_session(p):
    """connect / shell / push / pull / stat through AdbDeviceTcp(Async) over loopback == through the in-memory transport."""
    from sim.harness import Host
    out = []
    push_src = bytes(range(256)) * 60
    ref_dev = newdev()
    ref = Host(ref_dev, p['kind'])
    expect = outcome(lambda: session_ops(ref.call, push_src))
    ref.finish()
    # real sockets need the real clock in the library
    L['adb_device'].time = real_time
    L['adb_device_async'].time = real_time
    dev = newdev()
    lock = threading.Lock()
    peer = Peer(bridge_script(dev, lock))
    try:
        if p['kind'] == 'sync':
            d = L['adb_device'].AdbDeviceTcp('127.0.0.1', peer.port, default_transport_timeout_s=1.0)
            call = lambda name, *a, **kw: getattr(d, name)(*a, **kw)      # noqa
            got = outcome(lambda: session_ops(call, push_src))
        else:
            import asyncio
            loop = asyncio.new_event_loop()
            d = L['adb_device_async'].AdbDeviceTcpAsync('127.0.0.1', peer.port, default_transport_timeout_s=1.0)
            call = lambda name, *a, **kw: loop.run_until_complete(getattr(d, name)(*a, **kw))      # noqa
            got = outcome(lambda: session_ops(call, push_src))
            loop.close()
        if got != expect:
            out.append(fail(p, 'a device session over loopback must give the same results as over the in-memory transport', str(expect)[:300], str(got)[:300]))
        elif dev.pushed.get(b'/q', {}).get('data') != push_src:
            out.append(fail(p, 'the file pushed over loopback must arrive intact', len(push_src), len(dev.pushed.get(b'/q', {}).get('data', b''))))
    finally:
        peer.event('done').set()
        peer.close()
    return out


PROPS['C18'] = (c18_params, c18_run)


# =====================================================================================================================
# C20: a fake usb1 backend that behaves per the libusb1 documentation

def make_usb1():
    m = types.ModuleType('usb1')

    class USBError(Exception):
        pass
    for name in ('USBErrorNotFound', 'USBErrorTimeout', 'USBErrorNoDevice', 'USBErrorBusy', 'USBErrorIO', 'USBErrorAccess', 'USBErrorPipe'):
        setattr(m, name, type(name, (USBError,), {}))
    m.USBError = USBError
    m.ENDPOINT_DIR_MASK = 0x80
    m.USB_ENDPOINT_DIR_MASK = 0x80
    m.ENDPOINT_IN = 0x80
    m.ENDPOINT_OUT = 0x00
    m.CLASS_VENDOR_SPEC = 0xFF

    class USBContext(object):
        def open(self):
            return self

        def close(self):
            pass

        def getDeviceIterator(self, skip_on_error=True):
            return iter(())

        def __enter__(self):
            return self

        def __exit__(self, *a):
            pass
    m.USBContext = USBContext
    return m


def usb_transport_module():
    """adb_shell.transport.usb_transport imported against the fake usb1 (the real one is not installed here)."""
    if 'usb1' not in sys.modules or not getattr(sys.modules['usb1'], '_sim_fake', False):
        fake = make_usb1()
        fake._sim_fake = True
        sys.modules['usb1'] = fake
        sys.modules.pop('adb_shell.transport.usb_transport', None)
    return importlib.import_module('adb_shell.transport.usb_transport'), sys.modules['usb1']


class FakeEndpoint(object):
    def __init__(self, address):
        self.address = address

    def getAddress(self):
        return self.address

    def getMaxPacketSize(self):
        return 512


class FakeSetting(object):
    def __init__(self, number, endpoints):
        self.number = number
        self.endpoints = endpoints

    def iterEndpoints(self):
        return iter([FakeEndpoint(a) for a in self.endpoints])

    def getNumber(self):
        return self.number

    def getClass(self):
        return 0xFF

    def getSubClass(self):
        return 0x42

    def getProtocol(self):
        return 0x01


class FakeUsb(object):
    """Device + handle.  A monitor of the documented libusb rules; `log` records every backend call; `error_at` injects a USBError
    subclass at a backend call index."""

    def __init__(self, usb1, iface, in_ep, out_ep, short=None, error_at=None, error_cls='USBErrorIO', dev=None):
        self.usb1 = usb1
        self.iface, self.in_ep, self.out_ep = iface, in_ep, out_ep
        self.short = short
        self.error_at = error_at
        self.error_cls = error_cls
        self.calls = 0
        self.log = []
        self.problems = []
        self.opened = False
        self.claimed = set()
        self.rx = bytearray(b'0123456789' * 30)     # what the device has to say (raw mode)
        self.tx = bytearray()
        self.dev = dev                              # optional simulated adbd
        self.unplugged = False
        self.kernel_driver = False

    # usb1.USBDevice
    def open(self):
        self._call('open')
        self.opened = True
        self.claimed = set()
        if self.dev is not None:
            self.dev.reset_session()
        return self

    def getBusNumber(self):
        return 1

    def getPortNumberList(self):
        return [2, 3]

    def getSerialNumber(self):
        if getattr(self, 'unplugged', False):
            raise getattr(self.usb1, getattr(self, 'gone_cls', 'USBErrorNoDevice'))('device is gone')
        return 'SIM0001'

    def getDeviceAddress(self):
        return 5

    # usb1.USBDeviceHandle
    def _call(self, what, *a):
        i = self.calls
        self.calls += 1
        self.log.append((what,) + a)
        if self.error_at is not None and i == self.error_at:
            raise getattr(self.usb1, self.error_cls)('injected at backend call %d (%s)' % (i, what))

    def _need_open(self, what):
        if not self.opened:
            self.problems.append('%s on a closed handle (undefined behaviour / crash in libusb)' % what)

    def kernelDriverActive(self, iface):
        self._call('kernelDriverActive', iface)
        return getattr(self, 'kernel_driver', False)

    def detachKernelDriver(self, iface):
        self._call('detachKernelDriver', iface)
        self.kernel_driver = False

    def claimInterface(self, iface):
        self._call('claimInterface', iface)
        self._need_open('claimInterface')
        if getattr(self, 'kernel_driver', False):
            raise self.usb1.USBErrorBusy('a kernel driver is bound to the interface')      # documented libusb behaviour
        if iface != self.iface:
            self.problems.append('claimInterface(%r): the ADB interface of this device is number %r' % (iface, self.iface))
        self.claimed.add(iface)

    def releaseInterface(self, iface):
        self._call('releaseInterface', iface)
        self._need_open('releaseInterface')
        if iface not in self.claimed:
            self.problems.append('releaseInterface(%r) of an interface that is not claimed' % (iface,))
        self.claimed.discard(iface)

    def close(self):
        self._call('close')
        self.opened = False

    def _check_transfer(self, what, ep, timeout):
        self._need_open(what)
        if self.iface not in self.claimed:
            self.problems.append('%s before the ADB interface was claimed' % what)
        if not isinstance(timeout, int) or isinstance(timeout, bool) or timeout < 0:
            self.problems.append('%s timeout must be a non-negative int of milliseconds, got %r' % (what, timeout))

    def bulkRead(self, endpoint, length, timeout=0):
        self._call('bulkRead', endpoint, length, timeout)
        self._check_transfer('bulkRead', endpoint, timeout)
        if endpoint != self.in_ep:
            self.problems.append('bulkRead on endpoint %#x, the IN endpoint is %#x' % (endpoint, self.in_ep))
        src = self.dev.to_host if self.dev is not None else self.rx
        if not src:
            raise self.usb1.USBErrorTimeout('nothing to read')
        n = length if self.short is None else min(length, self.short)
        b = bytes(src[:n])
        del src[:n]
        return bytearray(b)

    def bulkWrite(self, endpoint, data, timeout=0):
        self._call('bulkWrite', endpoint, bytes(data), timeout)
        self._check_transfer('bulkWrite', endpoint, timeout)
        if endpoint != self.out_ep:
            self.problems.append('bulkWrite on endpoint %#x, the OUT endpoint is %#x' % (endpoint, self.out_ep))
        n = len(data) if self.short is None else min(len(data), self.short)
        self.tx += bytes(data[:n])
        if self.dev is not None:
            self.dev.feed(bytes(data[:n]))
        return n


def c20_params(budget):
    for t, default in ((None, None), (None, 2.5), (0, None), (0.5, None), (1.5, None), (2, None), (9.25, 0.75)):
        yield {'what': 'timeouts', 't': t, 'default': default}
    for short in (None, 1, 7, 64):
        for eps in ((0x81, 0x02), (0x02, 0x81), (0x83, 0x04)):
            for iface in (0, 1, 3):
                yield {'what': 'io', 'short': short, 'eps': list(eps), 'iface': iface}
    for k in range(0, 14):
        for cls in ('USBErrorIO', 'USBErrorNoDevice', 'USBErrorTimeout'):
            yield {'what': 'errors', 'k': k, 'cls': cls}
    for size, short in ((50000, 10000), (40000, 16384), (70000, 1000), (16385, 16384)):
        yield {'what': 'bigwrite', 'size': size, 'short': short}
    yield {'what': 'kernel-driver'}
    for k in range(4, 9):
        for cls in ('USBErrorNoDevice', 'USBErrorIO', 'USBErrorPipe'):     # unplugged / hung device / stalled endpoints
            yield {'what': 'unplug', 'k': k, 'cls': cls}
    yield {'what': 'session', 'short': None}
    yield {'what': 'session', 'short': 64}


def c20_run(p):
    out = []
    ut, usb1 = usb_transport_module()
    Usb = ut.UsbTransport
    RERR, WERR = EXC.UsbReadFailedError, EXC.UsbWriteFailedError
    if p['what'] == 'timeouts':
        fu = FakeUsb(usb1, 1, 0x81, 0x02)
        kw = {} if p['default'] is None else {'default_transport_timeout_s': p['default']}
        t = Usb(fu, FakeSetting(1, [0x81, 0x02]), **kw)
        t.connect(p['t'])
        t.bulk_write(b'abc', p['t'])
        t.bulk_read(5, p['t'])
        eff = p['t'] if p['t'] is not None else (p['default'] if p['default'] is not None else ut.DEFAULT_TIMEOUT_S)
        want = eff * 1000
        for c in fu.log:
            if c[0] in ('bulkRead', 'bulkWrite'):
                ms = c[-1]
                if not isinstance(ms, int) or abs(ms - want) >= 1:
                    out.append(fail(p, '%s timeout must be the given timeout (or the default) in milliseconds' % c[0], want, ms))
        for pr in fu.problems:
            out.append(fail(p, 'libusb rule broken: ' + pr))
        return out
    if p['what'] == 'io':
        in_ep = [a for a in p['eps'] if a & 0x80][0]
        out_ep = [a for a in p['eps'] if not a & 0x80][0]
        fu = FakeUsb(usb1, p['iface'], in_ep, out_ep, short=p['short'])
        t = Usb(fu, FakeSetting(p['iface'], p['eps']))
        t.connect(1.0)
        if ('claimInterface', p['iface']) not in fu.log:
            out.append(fail(p, 'connect must claim the ADB interface', ('claimInterface', p['iface']), fu.log))
        sent = b'hello usb ' * 20
        rest = sent
        while rest:
            n = t.bulk_write(rest, 1.0)
            if not isinstance(n, int) or n <= 0 or n > len(rest):
                out.append(fail(p, 'bulk_write must return the number of bytes the backend accepted', '1..%d' % len(rest), n))
                break
            rest = rest[n:]
        if bytes(fu.tx) != sent:
            out.append(fail(p, 'writes must reach the OUT endpoint in order', sent[:20], bytes(fu.tx[:20])))
        expect = bytes(fu.rx)
        got = bytearray()
        for n in (1, 5, 24, 100, 4096):
            r = outcome(lambda: t.bulk_read(n, 1.0))
            if r[0] != 'ok':
                break
            if len(r[1]) > n:
                out.append(fail(p, 'bulk_read must never exceed the requested size', n, len(r[1])))
            if not isinstance(r[1], bytes):
                out.append(fail(p, 'bulk_read returns bytes', 'bytes', type(r[1]).__name__))
            got += r[1]
        if bytes(got) != expect[:len(got)] or not got:
            out.append(fail(p, 'reads must come from the IN endpoint in order', expect[:20], bytes(got[:20])))
        t.close()
        for name, f, E in (('bulk_read', lambda: t.bulk_read(4, 1.0), 'UsbReadFailedError'), ('bulk_write', lambda: t.bulk_write(b'x', 1.0), 'UsbWriteFailedError')):
            r = outcome(f)
            if r[:2] != ('exc', E):
                out.append(fail(p, '%s after close must raise %s' % (name, E), E, r))
        for pr in fu.problems:
            out.append(fail(p, 'libusb rule broken: ' + pr))
        return out
    if p['what'] == 'errors':
        fu = FakeUsb(usb1, 1, 0x81, 0x02, error_at=p['k'], error_cls=p['cls'])
        t = Usb(fu, FakeSetting(1, [0x81, 0x02]))
        steps = [('connect', lambda: t.connect(1.0), None), ('bulk_write', lambda: t.bulk_write(b'abcdef', 1.0), 'UsbWriteFailedError'),
                 ('bulk_read', lambda: t.bulk_read(6, 1.0), 'UsbReadFailedError'), ('bulk_write', lambda: t.bulk_write(b'gh', 1.0), 'UsbWriteFailedError'),
                 ('bulk_read', lambda: t.bulk_read(3, 1.0), 'UsbReadFailedError'), ('close', lambda: t.close(), None)]
        connected = False
        for name, f, E in steps:
            before = fu.calls
            r = outcome(f)
            hit = fu.error_at is not None and before <= fu.error_at < fu.calls
            if name == 'connect':
                connected = r[0] == 'ok'
                if not connected:
                    break
                continue
            if name == 'close':
                if r[0] != 'ok':
                    out.append(fail(p, 'close swallows libusb errors', 'ok', r))
                continue
            if hit and r[:2] != ('exc', E):
                out.append(fail(p, 'a libusb error in %s must surface as %s' % (name, E), E, r))
            if not hit and r[0] != 'ok':
                out.append(fail(p, '%s failed although the backend did not' % name, 'ok', r))
        if connected:
            for name, f, E in (('bulk_read', lambda: t.bulk_read(4, 1.0), 'UsbReadFailedError'), ('bulk_write', lambda: t.bulk_write(b'x', 1.0), 'UsbWriteFailedError')):
                n_before = len(fu.log)
                r = outcome(f)
                if r[:2] != ('exc', E):
                    out.append(fail(p, '%s after close must raise %s rather than use the closed handle' % (name, E), E, r))
                if len(fu.log) != n_before:
                    out.append(fail(p, '%s after close must not touch the backend' % name, 'no backend call', fu.log[n_before:]))
        for pr in fu.problems:
            out.append(fail(p, 'libusb rule broken: ' + pr))
        return out
    if p['what'] == 'bigwrite':
        fu = FakeUsb(usb1, 1, 0x81, 0x02, short=p['short'])
        t = Usb(fu, FakeSetting(1, [0x81, 0x02]))
        t.connect(1.0)
        sent = bytes((i * 17 + 3) % 253 for i in range(p['size']))
        rest = sent
        guard = 0
        while rest and guard < 10000:
            guard += 1
            n = t.bulk_write(rest, 1.0)
            if not isinstance(n, int) or n <= 0 or n > len(rest):
                out.append(fail(p, 'bulk_write must return the number of bytes the backend accepted', '1..%d' % len(rest), n))
                break
            rest = rest[n:]
        if not out and bytes(fu.tx) != sent:
            k = next((i for i, (a, b) in enumerate(zip(fu.tx, sent)) if a != b), min(len(fu.tx), len(sent)))
            out.append(fail(p, 'what the caller was told was written must be what reached the OUT endpoint, in order (large write, short transfers)',
                            len(sent), 'first difference at offset %d, %d bytes on the wire' % (k, len(fu.tx))))
        return out
    if p['what'] == 'kernel-driver':
        fu = FakeUsb(usb1, 1, 0x81, 0x02)
        fu.kernel_driver = True
        t = Usb(fu, FakeSetting(1, [0x81, 0x02]))
        r = outcome(lambda: t.connect(1.0))
        if r[0] != 'ok' or 1 not in fu.claimed:
            out.append(fail(p, 'connect must detach a bound kernel driver and then claim the ADB interface', 'claimed', (r, sorted(fu.claimed))))
        for pr in fu.problems:
            out.append(fail(p, 'libusb rule broken: ' + pr))
        return out
    if p['what'] == 'unplug':
        # the device disappears or hangs: every backend call from index k on fails with the same USBError subclass, the serial
        # number lookup (used by the error messages) included
        fu = FakeUsb(usb1, 1, 0x81, 0x02)
        fu.gone_cls = p.get('cls', 'USBErrorNoDevice')
        t = Usb(fu, FakeSetting(1, [0x81, 0x02]))
        t.connect(1.0)
        real_call = fu._call

        def call(what, *a):
            if fu.calls >= p['k']:
                fu.unplugged = True
                fu.calls += 1
                fu.log.append((what,) + a)
                raise getattr(usb1, fu.gone_cls)('unplugged at backend call %d (%s)' % (fu.calls - 1, what))
            return real_call(what, *a)
        fu._call = call
        for name, f, E in (('bulk_write', lambda: t.bulk_write(b'abcdef', 1.0), 'UsbWriteFailedError'), ('bulk_read', lambda: t.bulk_read(6, 1.0), 'UsbReadFailedError'),
                           ('bulk_write', lambda: t.bulk_write(b'gh', 1.0), 'UsbWriteFailedError'), ('bulk_read', lambda: t.bulk_read(3, 1.0), 'UsbReadFailedError')):
            r = outcome(f)
            if fu.unplugged and r[:2] != ('exc', E):
                out.append(fail(p, 'a libusb error in %s must surface as %s (device unplugged)' % (name, E), E, r))
        r = outcome(lambda: t.close())
        if r[0] != 'ok':
            out.append(fail(p, 'close swallows libusb errors (device unplugged)', 'ok', r))
        return out
    if p['what'] == 'session':
        from sim.harness import Host
        push_src = bytes(range(256)) * 30
        ref = Host(newdev(), 'sync')
        expect = outcome(lambda: session_ops(ref.call, push_src))
        ref.finish()
        dev = newdev()
        fu = FakeUsb(usb1, 1, 0x81, 0x02, short=p['short'], dev=dev)
        t = Usb(fu, FakeSetting(1, [0x81, 0x02]))
        d = L['adb_device'].AdbDevice(t, default_transport_timeout_s=1.0)
        call = lambda name, *a, **kw: getattr(d, name)(*a, **kw)      # noqa
        got = outcome(lambda: session_ops(call, push_src))
        if got != expect:
            out.append(fail(p, 'a device session over the USB transport must match the in-memory transport', str(expect)[:300], str(got)[:300]))
        elif dev.pushed.get(b'/q', {}).get('data') != push_src:
            out.append(fail(p, 'the file pushed over USB must arrive intact', len(push_src), len(dev.pushed.get(b'/q', {}).get('data', b''))))
        for pr in fu.problems:
            out.append(fail(p, 'libusb rule broken: ' + pr))
        return out
    return out


PROPS['C20'] = (c20_params, c20_run)


# =====================================================================================================================
# C06 (and the concurrent half of C14): two threads on one AdbDevice under every schedule with a bounded number of preemptions

BOUNDS['C06'] = ('sync twin only: 2 threads each running shell() (3 WRTEs per stream) on one AdbDevice, preemption possible at every lock acquire / '
                 'release of the library; all schedules with <= 1 (quick) / <= 2 (thorough, capped at 6000) preemptions x both starting threads; '
                 'runs in which the store discards a CLSE for an absent key are attributed to known finding K1 and not counted; '
                 'plus the sequential C01 / C19 scenario sets')


def c06_one(preempt_at, first, lines=()):
    """One scheduled run.  -> (failures, steps, k1_hit)"""
    from sim import sched
    from sim.harness import Host
    payloads = {b'A': [b'<A:0 one>', b'<A:1 two>', b'<A:2 three>'], b'B': [b'<B:0 uno>', b'<B:1 dos>', b'<B:2 tres>']}
    dev = adbd.Adbd(shell=lambda d: payloads[d.split(b':', 1)[1][:1]], maxdata=4096)
    s = sched.Scheduler(preempt_at=preempt_at, first=first, trace_lines_of=lines)
    sched.SchedLock.sched = None
    real_lock = L['adb_device'].Lock
    L['adb_device'].Lock = sched.SchedLock
    try:
        h = Host(dev, 'sync', stall='empty')
        h.call('connect', transport_timeout_s=0.5, read_timeout_s=2.0)
        store = h.d._io_manager._packet_store
        k1 = []
        orig_put = store.put

        def put(arg0, arg1, cmd, data):
            before = len(store)
            present = (arg0, arg1) in store or store.find(arg0, arg1) is not None
            orig_put(arg0, arg1, cmd, data)
            if cmd == b'CLSE' and store.find(arg0, arg1) is None and not present:
                k1.append((arg0, arg1))
        store.put = put
        sched.SchedLock.sched = s
        for name in ('A', 'B'):
            s.spawn(name, (lambda n: (lambda: h.d.shell(n, decode=False, transport_timeout_s=0.5, read_timeout_s=2.0)))(name))
        finished = s.run(timeout=15)
    finally:
        sched.SchedLock.sched = None
        L['adb_device'].Lock = real_lock
    fails = []
    if not finished:
        fails.append(('the two operations must complete (no hang)', 'completion', 'still running after 15 s'))
    elif s.deadlock:
        fails.append(('no deadlock between concurrent operations', 'completion', [(t['name'], t['state']) for t in s.threads]))
    for t in s.threads:
        want = b''.join(payloads[t['name'].encode()])
        if t['result'] is not None and t['result'] != ('ok', want):
            fails.append(('each concurrent shell() must return exactly the payload the device addressed to its own stream', want, t['result']))
    for v in dev.violations:
        fails.append(('protocol monitor: ' + v, None, None))
    if dev.streams:
        fails.append(('every stream must be closed by exactly one host CLSE', 'no open stream', sorted(dev.streams)))
    return fails, s.step, bool(k1)


def c06_params(budget):
    # stream-id allocation with every source line of _open a preemption point (finds races that the lock discipline should exclude)
    base = c06_one((), 0, ('_open',))[1]
    lim = min(base, 40)
    for i in range(lim):
        yield {'first': 0, 'preempt': [i], 'lines': ['_open']}
    for i in range(lim if budget != 'quick' else 14):
        for j in range(i + 1, lim if budget != 'quick' else 26):
            yield {'first': 0, 'preempt': [i, j], 'lines': ['_open']}
    # three preemptions among the first steps: one thread parked inside the allocation, the other parked with its stream open
    n3 = 16 if budget == 'quick' else 24
    for i in range(n3):
        for j in range(i + 1, n3 + 8):
            for k in range(j + 1, n3 + 16):
                yield {'first': 0, 'preempt': [i, j, k], 'lines': ['_open']}
    for first in (0, 1):
        base = c06_one((), first)[1]
        yield {'first': first, 'preempt': []}
        for i in range(base + 8):
            yield {'first': first, 'preempt': [i]}
        if budget == 'quick':
            # two preemptions early in the operations (stream-id allocation and OPEN): cheap, and where atomicity bugs of _open show
            for i in range(16):
                for j in range(i + 1, 24):
                    yield {'first': first, 'preempt': [i, j]}
        else:
            n = 0
            for i in range(base + 8):
                for j in range(i + 1, base + 8):
                    n += 1
                    if n > 3000:
                        break
                    yield {'first': first, 'preempt': [i, j]}


K1_RUNS = [0]


def c06_run(p):
    fails, steps, k1 = c06_one(tuple(p['preempt']), p['first'], tuple(p.get('lines', ())))
    if k1:
        K1_RUNS[0] += 1           # the known defect K1 (a CLSE for a stream with nothing parked is discarded) struck in this schedule
        return []
    return [fail(p, w, e, o) for (w, e, o) in fails]


PROPS['C06'] = (c06_params, c06_run)
