"""A deterministic scheduler for real threads: exactly one thread runs at a time, control changes hands only at yield points (every lock
acquire and release of the library, through `SchedLock`).  A schedule is the set of global step indices at which the running thread is
preempted; everything else is run-to-block.  Used by the bounded stand-in of C06 / C14 to enumerate all schedules with a bounded number of
preemptions on the real `AdbDevice`."""
import threading


class Deadlock(Exception):
    pass


class Scheduler(object):
    def __init__(self, preempt_at=(), first=0, trace_lines_of=()):
        self.trace_lines_of = set(trace_lines_of)       # function names whose every source line is a yield point too (unprotected sections)
        self.preempt_at = set(preempt_at)
        self.first = first
        self.threads = []          # [dict(name, thread, go, state, result)]
        self.current = None
        self.step = 0
        self.main_wake = threading.Event()
        self.deadlock = False
        self.trace = []

    # ---- set-up ---------------------------------------------------------------------------------------------------------
    def spawn(self, name, fn):
        rec = {'name': name, 'go': threading.Event(), 'state': 'runnable', 'result': None, 'blocked_on': None}

        def body():
            rec['go'].wait()
            if self.trace_lines_of:
                import sys

                def tracer(frame, event, arg):
                    if frame.f_code.co_name in self.trace_lines_of:
                        def local(frame, event, arg):
                            if event == 'line' and self.current is rec:
                                self.yield_point('line:%s:%d' % (frame.f_code.co_name, frame.f_lineno))
                            return local
                        return local
                    return None
                sys.settrace(tracer)
            try:
                rec['result'] = ('ok', fn())
            except Deadlock:
                rec['result'] = ('deadlock', None)
            except BaseException as e:      # noqa
                rec['result'] = ('exc', type(e).__name__, str(e)[:200])
            rec['state'] = 'done'
            self._switch_from(rec, finished=True)
        rec['thread'] = threading.Thread(target=body, daemon=True)
        self.threads.append(rec)
        return rec

    def run(self, timeout=20):
        for t in self.threads:
            t['thread'].start()
        self.current = self.threads[self.first % len(self.threads)]
        self.current['go'].set()
        ok = self.main_wake.wait(timeout)
        hung = not ok
        if self.deadlock or hung:
            # release everybody so that the daemon threads can die
            for t in self.threads:
                t['state'] = 'abort' if t['state'] != 'done' else 'done'
                t['go'].set()
        return not hung

    # ---- called by the running thread -------------------------------------------------------------------------------------
    def me(self):
        return self.current

    def _runnable_others(self, rec):
        return [t for t in self.threads if t is not rec and t['state'] == 'runnable']

    def _handoff(self, rec, nxt):
        self.current = nxt
        rec['go'].clear()
        nxt['go'].set()

    def _switch_from(self, rec, finished=False):
        others = self._runnable_others(rec)
        if others:
            self._handoff(rec, others[0])
        elif all(t['state'] == 'done' for t in self.threads):
            self.main_wake.set()
        else:
            self.deadlock = True
            self.main_wake.set()
        if not finished:
            rec['go'].wait()
            if rec['state'] == 'abort':
                raise Deadlock()

    def yield_point(self, tag):
        rec = self.current
        i = self.step
        self.step += 1
        self.trace.append((i, rec['name'], tag))
        if i in self.preempt_at:
            others = self._runnable_others(rec)
            if others:
                self._handoff(rec, others[0])
                rec['go'].wait()
                if rec['state'] == 'abort':
                    raise Deadlock()

    def block_on(self, lock):
        rec = self.current
        rec['state'] = 'blocked'
        rec['blocked_on'] = lock
        self._switch_from(rec)

    def wake(self, lock):
        for t in self.threads:
            if t['state'] == 'blocked' and t['blocked_on'] is lock:
                t['state'] = 'runnable'
                t['blocked_on'] = None


class SchedLock(object):
    """Drop-in for threading.Lock under a Scheduler (non-re-entrant mutex)."""
    sched = None

    def __init__(self):
        self.owner = None
        if self._active():
            SchedLock.sched.yield_point('create-lock')      # a lock created lazily inside an operation: check-then-create races show here

    @staticmethod
    def _active():
        s = SchedLock.sched
        return s is not None and s.current is not None and threading.current_thread() is s.current.get('thread')

    def acquire(self, blocking=True, timeout=-1):
        s = SchedLock.sched
        if not self._active():
            # outside a scheduled run (set-up in the main thread): a plain lock, never contended
            if self.owner is not None:
                raise RuntimeError('SchedLock contended outside a scheduled run')
            self.owner = 'main'
            return True
        s.yield_point('acquire')
        while self.owner is not None:
            if not blocking or (timeout is not None and timeout >= 0):
                # a timed / non-blocking acquire gives up (virtual time: the holder never lets go while we wait on the baton)
                others_can_run = any(t['state'] == 'runnable' for t in s.threads if t is not s.me())
                if not others_can_run or not blocking:
                    return False
            s.block_on(self)
        self.owner = s.me()['name']
        return True

    def release(self):
        s = SchedLock.sched
        if self.owner is None:
            raise RuntimeError('release unlocked lock')
        self.owner = None
        if not self._active():
            return
        s.wake(self)
        s.yield_point('release')

    def locked(self):
        return self.owner is not None

    def __enter__(self):
        self.acquire()
        return self

    def __exit__(self, *a):
        self.release()
