"""Ghost state and object classes shared by all contracts (DESIGN.md section 3.1)."""
from pyvc.dsl import ghost, klass

# ---- ghost state: exists only in contracts ---------------------------------------------------------
ghost('now', 'real', 'the clock: time.time() returns it; transports advance it by at most their timeout')
ghost('cpu', 'real', 'accumulated time spent outside transport calls (computation); bounds are stated modulo this')
ghost('dev', 'bytes', 'the byte stream the device produces in this session')
ghost('rpos', 'int', 'how much of dev the host has consumed')
ghost('wire', 'bytes', 'concatenation of every buffer handed to transport.bulk_write, in order')
ghost('nwrites', 'int', 'number of bulk_write calls')
ghost('peer_rx', 'bytes', 'bytes the peer has actually received (bulk_write returning n appends data[:n])')
ghost('short', 'bool', 'some bulk_write so far accepted fewer bytes than it was given')
ghost('held_transport', 'bool', 'the transport lock is held by this thread of control')
ghost('held_store', 'bool', 'the store lock is held by this thread of control')
ghost('broken', 'bool', 'a read of the device stream failed part-way in this session (transport error, timeout, unparsable packet): the cursor may sit inside a packet')
ghost('held_local_id', 'bool', 'the local-id lock is held by this thread of control')
ghost('di', 'intmap', 'per stream (local id): number of packets IOManager.read has delivered to its reader')
ghost('lost', 'intmap', 'per stream: number of data-bearing (WRTE) packets consumed and discarded by IOManager.read')
ghost('sgot', 'intmap', 'per stream: number of sync bytes (WRTE payload bytes) received so far')
ghost('spos', 'intmap', 'per stream: number of sync bytes consumed by the FileSync record reader')
ghost('sync_out', 'bytesmap', 'per stream: every sync byte ever placed in the send buffer (records built by _filesync_send)')
ghost('sync_flushed', 'bytesmap', 'per stream: the sync bytes already sent in WRTE payloads')
ghost('nsync', 'intmap', 'per stream: number of sync records built by _filesync_send')
ghost('pushed', 'bytesmap', 'per stream: concatenation of the payloads of the DATA records built so far')
ghost('fin', 'bytes', 'content of the local source stream (push)')
ghost('fpos', 'int', 'read position in the local source stream')
ghost('fi', 'intmap', 'per stream: number of FileSync records _filesync_read has returned')
ghost('fout', 'bytes', 'bytes written to the local destination stream (pull)')
ghost('cb_bytes', 'int', 'sum of the byte counts reported to the progress callback')
ghost('tctx', 'opt[real]', 'timeout of the innermost async_timeout.timeout(...) context')
ghost('tctx_on', 'bool', 'inside an async_timeout.timeout(...) context')
ghost('usb_kd', 'bool', 'a kernel driver is (still) bound to the interface of the open libusb handle: claimInterface would fail with BUSY')
ghost('usb_claimed', 'opt[int]', 'interface number claimed on the open libusb handle')
ghost('session', 'int', 'transport sessions started (incremented by transport.connect)')
ghost('topen', 'bool', 'the transport is connected')
ghost('files_opened', 'int', 'local files opened')
ghost('cb_calls', 'int', 'auth callback invocations')
ghost('nsign', 'int', 'number of Sign calls on any key')

# ---- classes -------------------------------------------------------------------------------------------
klass('Msg', {'command': 'int', 'magic': 'int', 'arg0': 'opt[int]', 'arg1': 'opt[int]', 'data': 'bytes'},
      real='adb_message:AdbMessage')

klass('AdbInfo', {'local_id': 'opt[int]', 'remote_id': 'opt[int]', 'timeout_s': 'opt[real]',
                  'read_timeout_s': 'real', 'transport_timeout_s': 'opt[real]'},
      real='hidden_helpers:_AdbTransactionInfo')

klass('Transport', {}, real=None, check_init=False,
      bases=['transport.base_transport:BaseTransport', 'transport.base_transport_async:BaseTransportAsync'])

klass('BytesIO', {}, real=None, check_init=False)

klass('StatResult', {'st_size': 'int'}, real=None, check_init=False)
