"""The abstract transport (BaseTransport as documented in base_transport.py): assumed contracts, never proved here.
The concrete transports are shown to refine them under C18 / C20.

bulk_read(n, t)   returns dev[rpos : rpos+m] for SOME 0 <= m <= n, advancing rpos and the clock by some d in [0, max(t,0)]
                  (no bound when t is None) -- every fragmentation at once, including empty reads -- or raises anything.
bulk_write(d, t)  returns SOME n in [0, len(d)] having delivered d[:n] to the peer, or raises anything.
connect(t)        starts a fresh session (new device byte stream, rpos = 0) or raises.
close()           ends the session; may raise (C12 quantifies over failures of every transport call).
"""
from pyvc.dsl import contract

TIME = ['G.now >= old(G.now)',
        'implies(not isnone(transport_timeout_s), G.now - old(G.now) <= ite(val(transport_timeout_s) > 0, val(transport_timeout_s), 0))',
        'G.cpu == old(G.cpu)']

contract('Transport.bulk_read', trusted=True,
         params={'self': 'obj:Transport', 'numbytes': 'int', 'transport_timeout_s': 'opt[real]'},
         returns='bytes',
         modifies=['G.rpos', 'G.now'],
         ensures=['len(result) <= ite(numbytes > 0, numbytes, 0)',
                  'result == old(G.dev)[old(G.rpos):old(G.rpos) + len(result)]',
                  'G.rpos == old(G.rpos) + len(result)',
                  'G.rpos <= len(G.dev)'] + TIME,
         raises={'*': ['G.rpos >= old(G.rpos)', 'G.rpos <= len(G.dev)'] + TIME})

contract('Transport.bulk_write', trusted=True,
         params={'self': 'obj:Transport', 'data': 'bytes', 'transport_timeout_s': 'opt[real]'},
         returns='int',
         modifies=['G.wire', 'G.nwrites', 'G.peer_rx', 'G.short', 'G.now'],
         ensures=['result >= 0 and result <= len(data)',
                  'G.wire == old(G.wire) + data',
                  'G.nwrites == old(G.nwrites) + 1',
                  'G.peer_rx == old(G.peer_rx) + data[:result]',
                  'G.short == (old(G.short) or result < len(data))'] + TIME,
         raises={'*': ['G.wire == old(G.wire) + data', 'G.nwrites == old(G.nwrites) + 1'] + TIME})

contract('Transport.connect', trusted=True,
         params={'self': 'obj:Transport', 'transport_timeout_s': 'opt[real]'},
         modifies=['G.topen', 'G.session', 'G.dev', 'G.rpos', 'G.now'],
         ensures=['G.topen', 'G.session == old(G.session) + 1', 'G.rpos == 0'] + TIME,
         raises={'*': ['not G.topen', 'G.session == old(G.session)'] + TIME})

contract('Transport.close', trusted=True,
         params={'self': 'obj:Transport'},
         modifies=['G.topen', 'G.now'],
         ensures=['not G.topen', 'G.now >= old(G.now)'],
         raises={'*': ['G.now >= old(G.now)']})
