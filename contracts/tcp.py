"""C18: the TCP transports refine the abstract transport contract (contracts/transport.py), GIVEN the documented behaviour of
socket / select / asyncio streams / async_timeout (assumed below, enumerated in the trusted base).

The real-socket half of the property (kernel buffering, wall-clock, loopback sessions) is outside any contract on Python source:
the claim is conditional, as MANIFEST.level_note says.  "A device session over TCP gives the same results as over the in-memory
transport" follows from refinement: the device layer is verified against the abstract contract only.
"""
from pyvc.dsl import contract, klass, CONTRACTS
from contracts.transport import TIME

klass('TcpTransport', {'_host': 'str', '_port': 'int', '_connection': 'opt[opaque:Socket]'}, real={'sync': 'transport.tcp_transport:TcpTransport'})
klass('TcpTransportAsync', {'_host': 'str', '_port': 'int', '_reader': 'opt[opaque:Reader]', '_writer': 'opt[opaque:Writer]'},
      real={'async': 'transport.tcp_transport_async:TcpTransportAsync'})

T_ = 'ite(val(timeout) > 0, val(timeout), 0)'

# ---- assumed library contracts -------------------------------------------------------------------------------------------
contract('socket.create_connection', trusted=True,
         params={'address': 'tuple[str,int]', 'timeout': 'opt[real]'}, returns='opaque:Socket',
         modifies=['G.topen', 'G.session', 'G.dev', 'G.rpos', 'G.now'],
         ensures=['G.topen', 'G.session == old(G.session) + 1', 'G.rpos == 0', 'G.now >= old(G.now)',
                  'implies(not isnone(timeout), G.now - old(G.now) <= %s)' % T_],
         raises={'OSError': ['not G.topen or G.topen == old(G.topen)', 'G.session == old(G.session)', 'G.now >= old(G.now)',
                             'implies(not isnone(timeout), G.now - old(G.now) <= %s)' % T_]})
contract('Socket.setblocking', trusted=True, params={'self': 'opaque:Socket', 'flag': 'bool'}, modifies=[], ensures=[], raises={})
contract('Socket.shutdown', trusted=True, params={'self': 'opaque:Socket', 'how': 'int'}, modifies=['G.now'], ensures=['G.now >= old(G.now)'],
         raises={'OSError': ['G.now >= old(G.now)']})
contract('Socket.close', trusted=True, params={'self': 'opaque:Socket'}, modifies=['G.topen', 'G.now'], ensures=['not G.topen', 'G.now >= old(G.now)'], raises={})
contract('select.select', trusted=True,
         params={'rlist': 'list[opaque:Socket]', 'wlist': 'list[opaque:Socket]', 'xlist': 'list[opaque:Socket]', 'timeout': 'opt[real]'},
         returns='tuple[list[opaque:Socket],list[opaque:Socket],list[opaque:Socket]]',
         modifies=['G.now'],
         ensures=['len(result[0]) <= len(rlist) and len(result[1]) <= len(wlist) and len(result[2]) <= len(xlist)',
                  'G.now >= old(G.now)', 'implies(not isnone(timeout), G.now - old(G.now) <= %s)' % T_,
                  # nothing ready => the whole timeout has elapsed ("not before (about) the timeout")
                  'implies(len(result[0]) == 0 and len(result[1]) == 0 and len(result[2]) == 0 and not isnone(timeout), G.now - old(G.now) >= %s)' % T_],
         raises={'OSError': ['G.now >= old(G.now)', 'implies(not isnone(timeout), G.now - old(G.now) <= %s)' % T_]},
         doc='select(2): returns the ready subsets, or three empty lists after the timeout')
contract('Socket.recv', trusted=True,
         params={'self': 'opaque:Socket', 'bufsize': 'int'}, returns='bytes',
         modifies=['G.rpos'],
         ensures=['len(result) <= ite(bufsize > 0, bufsize, 0)', 'result == old(G.dev)[old(G.rpos):old(G.rpos) + len(result)]',
                  'G.rpos == old(G.rpos) + len(result)', 'G.rpos <= len(G.dev)'],
         raises={'OSError': ['G.rpos == old(G.rpos)']},
         doc='recv on a readable socket: the next 0..bufsize bytes of the peer stream, in order, no loss')
contract('Socket.send', trusted=True,
         params={'self': 'opaque:Socket', 'data': 'bytes'}, returns='int',
         modifies=['G.wire', 'G.nwrites', 'G.peer_rx', 'G.short'],
         ensures=['result >= 0 and result <= len(data)', 'G.wire == old(G.wire) + data', 'G.nwrites == old(G.nwrites) + 1',
                  'G.peer_rx == old(G.peer_rx) + data[:result]', 'G.short == (old(G.short) or result < len(data))'],
         raises={'OSError': ['G.wire == old(G.wire) + data', 'G.nwrites == old(G.nwrites) + 1']},
         doc='send on a (non-blocking) socket: accepts a prefix and reports its length')

# ---- TcpTransport refines Transport -----------------------------------------------------------------------------------------------
ABS = {k: CONTRACTS['Transport.' + k] for k in ('bulk_read', 'bulk_write', 'connect', 'close')}
TINV = 'implies(isnone(self._connection), not G.topen)'
TCP = 'transport.tcp_transport:TcpTransport.'


def abstract_ensures(name, prop='C18'):
    return [(prop, 'refines[%s]' % c.label, c.expr) for c in ABS[name].ensures]


contract('TcpTransport.__init__', real={'sync': TCP + '__init__'}, twins=('sync',),
         params={'self': 'obj:TcpTransport', 'host': 'str', 'port': 'int'}, props=['C18'], modifies=['self.*'],
         ensures=[('C18', 'starts-disconnected', 'isnone(self._connection) and self._host == host and self._port == port')])

contract('TcpTransport.bulk_read', real={'sync': TCP + 'bulk_read'}, twins=('sync',),
         params={'self': 'obj:TcpTransport', 'numbytes': 'int', 'transport_timeout_s': 'opt[real]'}, returns='bytes',
         props=['C18', 'C11'],
         requires=['not isnone(self._connection)', 'G.rpos >= 0 and G.rpos <= len(G.dev)'],
         modifies=['G.rpos', 'G.now'],
         ensures=abstract_ensures('bulk_read') + [('C18', 'never-more-than-requested', 'len(result) <= ite(numbytes > 0, numbytes, 0)')],
         raises={'TcpTimeoutException': [('C18', 'only-after-the-timeout-with-nothing-to-read',
                                          'implies(not isnone(transport_timeout_s), G.now - old(G.now) >= ite(val(transport_timeout_s) > 0, val(transport_timeout_s), 0))'),
                                         ('C18', 'no-data-lost-by-a-timeout', 'G.rpos == old(G.rpos)')] + [('C18,C11', c) for c in TIME],
                 'OSError': [('C18', 'no-data-lost', 'G.rpos == old(G.rpos)')]},
         call_asserts={'select.select': [('C18,C11', 'waits-for-readability-with-the-given-timeout',
                                          'len(_arg_rlist) == 1 and same(_arg_rlist[0], val(self._connection)) and len(_arg_wlist) == 0 and same(_arg_timeout, transport_timeout_s)')],
                       'Socket.recv': [('C18', 'asks-for-exactly-numbytes', '_arg_bufsize == numbytes')]})

contract('TcpTransport.bulk_write', real={'sync': TCP + 'bulk_write'}, twins=('sync',),
         params={'self': 'obj:TcpTransport', 'data': 'bytes', 'transport_timeout_s': 'opt[real]'}, returns='int',
         props=['C18', 'C15', 'C11'],
         requires=['not isnone(self._connection)'],
         modifies=['G.wire', 'G.nwrites', 'G.peer_rx', 'G.short', 'G.now'],
         ensures=abstract_ensures('bulk_write', 'C18,C15'),
         raises={'TcpTimeoutException': [('C18,C15', 'nothing-was-sent', 'G.peer_rx == old(G.peer_rx) and G.nwrites == old(G.nwrites)')] + [('C18,C11', c) for c in TIME],
                 'OSError': []},
         call_asserts={'select.select': [('C18,C11', 'waits-for-writability-with-the-given-timeout',
                                          'len(_arg_wlist) == 1 and same(_arg_wlist[0], val(self._connection)) and len(_arg_rlist) == 0 and same(_arg_timeout, transport_timeout_s)')],
                       'Socket.send': [('C18,C15', 'hands-over-the-whole-buffer', '_arg_data == data')]})

contract('TcpTransport.connect', real={'sync': TCP + 'connect'}, twins=('sync',),
         params={'self': 'obj:TcpTransport', 'transport_timeout_s': 'opt[real]'},
         props=['C18', 'C12'],
         modifies=['self._connection', 'G.topen', 'G.session', 'G.dev', 'G.rpos', 'G.now'],
         ensures=abstract_ensures('connect', 'C18,C12') + [('C18', 'holds-the-new-socket', 'not isnone(self._connection)')],
         raises={'OSError': [('C18', 'no-half-open-state', 'same(self._connection, old(self._connection))')]},
         call_asserts={'socket.create_connection': [('C18', 'connects-to-the-configured-address-with-the-timeout',
                                                     '_arg_address == (self._host, self._port) and same(_arg_timeout, transport_timeout_s)')]})

contract('TcpTransport.close', real={'sync': TCP + 'close'}, twins=('sync',),
         params={'self': 'obj:TcpTransport'},
         props=['C18', 'C12'],
         requires=[TINV],
         modifies=['self._connection', 'G.topen', 'G.now'],
         ensures=abstract_ensures('close', 'C18,C12') + [('C18', 'forgets-the-socket-so-a-second-close-does-nothing', 'isnone(self._connection)'),
                                                         ('C18', 'idempotent', 'implies(isnone(old(self._connection)), G.now == old(G.now))')],
         raises={},
         doc='shutdown (OSError swallowed), close, _connection = None; idempotent; never raises given the socket contract')

# ---- asyncio streams (assumed) and TcpTransportAsync ---------------------------------------------------------------------------------
contract('asyncio.open_connection', trusted=True,
         params={'host': 'str', 'port': 'int'}, returns='tuple[opaque:Reader,opaque:Writer]',
         modifies=['G.topen', 'G.session', 'G.dev', 'G.rpos', 'G.now'],
         ensures=['G.topen', 'G.session == old(G.session) + 1', 'G.rpos == 0', 'G.now >= old(G.now)'],
         raises={'OSError': ['G.session == old(G.session)', 'G.now >= old(G.now)', 'G.topen == old(G.topen)'],
                 'asyncio.TimeoutError': ['G.session == old(G.session)', 'G.now >= old(G.now)', 'G.topen == old(G.topen)']})
contract('Reader.read', trusted=True,
         params={'self': 'opaque:Reader', 'n': 'int'}, returns='bytes',
         modifies=['G.rpos', 'G.now'],
         ensures=['len(result) <= ite(n > 0, n, 0)', 'result == old(G.dev)[old(G.rpos):old(G.rpos) + len(result)]',
                  'G.rpos == old(G.rpos) + len(result)', 'G.rpos <= len(G.dev)', 'G.now >= old(G.now)'],
         raises={'asyncio.TimeoutError': ['G.rpos == old(G.rpos)', 'G.now >= old(G.now)'], 'OSError': ['G.rpos == old(G.rpos)', 'G.now >= old(G.now)']},
         doc='StreamReader.read(n): up to n bytes, in order; cancelled by the enclosing timeout without consuming data')
contract('Writer.write', trusted=True,
         params={'self': 'opaque:Writer', 'data': 'bytes'},
         modifies=['G.wire', 'G.nwrites', 'G.peer_rx', 'G.short'],
         ensures=['G.wire == old(G.wire) + data', 'G.nwrites == old(G.nwrites) + 1', 'G.peer_rx == old(G.peer_rx) + data', 'G.short == old(G.short)'],
         raises={}, doc='StreamWriter.write queues the whole buffer for delivery (asyncio sends all of it)')
contract('Writer.drain', trusted=True, params={'self': 'opaque:Writer'}, modifies=['G.now'], ensures=['G.now >= old(G.now)'],
         raises={'asyncio.TimeoutError': ['G.now >= old(G.now)'], 'OSError': ['G.now >= old(G.now)']})
contract('Writer.close', trusted=True, params={'self': 'opaque:Writer'}, modifies=['G.topen', 'G.now'], ensures=['not G.topen', 'G.now >= old(G.now)'],
         raises={'OSError': ['not G.topen', 'G.now >= old(G.now)']})
contract('Writer.wait_closed', trusted=True, params={'self': 'opaque:Writer'}, modifies=['G.now'], ensures=['G.now >= old(G.now)'],
         raises={'OSError': ['G.now >= old(G.now)']})

TCPA = 'transport.tcp_transport_async:TcpTransportAsync.'
TINVA = 'implies(isnone(self._writer), not G.topen)'

contract('TcpTransportAsync.__init__', real={'async': TCPA + '__init__'}, twins=('async',),
         params={'self': 'obj:TcpTransportAsync', 'host': 'str', 'port': 'int'}, props=['C18'], modifies=['self.*'],
         ensures=[('C18', 'starts-disconnected', 'isnone(self._reader) and isnone(self._writer) and self._host == host and self._port == port')])

contract('TcpTransportAsync.bulk_read', real={'async': TCPA + 'bulk_read'}, twins=('async',),
         params={'self': 'obj:TcpTransportAsync', 'numbytes': 'int', 'transport_timeout_s': 'opt[real]'}, returns='bytes',
         props=['C18', 'C11', 'C16'],
         requires=['not isnone(self._reader)', 'G.rpos >= 0 and G.rpos <= len(G.dev)'],
         modifies=['G.rpos', 'G.now'],
         ensures=abstract_ensures('bulk_read', 'C18,C16') + [('C18', 'never-more-than-requested', 'len(result) <= ite(numbytes > 0, numbytes, 0)')],
         raises={'TcpTimeoutException': [('C18', 'no-data-lost-by-a-timeout', 'G.rpos == old(G.rpos)')] + [('C18,C11', c) for c in TIME],
                 'OSError': [('C18', 'no-data-lost', 'G.rpos == old(G.rpos)')]},
         call_asserts={'Reader.read': [('C18', 'asks-for-exactly-numbytes-under-the-given-timeout', '_arg_n == numbytes and same(G.tctx, transport_timeout_s) and G.tctx_on')]})

contract('TcpTransportAsync.bulk_write', real={'async': TCPA + 'bulk_write'}, twins=('async',),
         params={'self': 'obj:TcpTransportAsync', 'data': 'bytes', 'transport_timeout_s': 'opt[real]'}, returns='int',
         props=['C18', 'C15', 'C16'],
         requires=['not isnone(self._writer)'],
         modifies=['G.wire', 'G.nwrites', 'G.peer_rx', 'G.short', 'G.now'],
         ensures=abstract_ensures('bulk_write', 'C18,C15,C16') + [('C15,C18', 'whole-buffer-delivered', 'result == len(data) and G.peer_rx == old(G.peer_rx) + data')],
         raises={'TcpTimeoutException': [('C18,C11', c) for c in TIME], 'OSError': []},
         call_asserts={'Writer.write': [('C18,C15', 'hands-over-the-whole-buffer', '_arg_data == data')],
                       'Writer.drain': [('C18,C11', 'drains-under-the-given-timeout', 'same(G.tctx, transport_timeout_s) and G.tctx_on')]})

contract('TcpTransportAsync.connect', real={'async': TCPA + 'connect'}, twins=('async',),
         params={'self': 'obj:TcpTransportAsync', 'transport_timeout_s': 'opt[real]'},
         props=['C18', 'C12', 'C16'],
         modifies=['self._reader', 'self._writer', 'G.topen', 'G.session', 'G.dev', 'G.rpos', 'G.now'],
         ensures=abstract_ensures('connect', 'C18,C12,C16') + [('C18', 'holds-the-new-streams', 'not isnone(self._reader) and not isnone(self._writer)')],
         raises={'OSError': [], 'TcpTimeoutException': [('C18,C11', c) for c in TIME]},
         call_asserts={'asyncio.open_connection': [('C18', 'connects-to-the-configured-address-under-the-timeout',
                                                    '_arg_host == self._host and _arg_port == self._port and same(G.tctx, transport_timeout_s) and G.tctx_on')]})

contract('TcpTransportAsync.close', real={'async': TCPA + 'close'}, twins=('async',),
         params={'self': 'obj:TcpTransportAsync'},
         props=['C18', 'C12', 'C16'],
         requires=[TINVA],
         modifies=['self._reader', 'self._writer', 'G.topen', 'G.now'],
         ensures=abstract_ensures('close', 'C18,C12,C16') + [('C18', 'forgets-both-streams-so-a-second-close-does-nothing', 'isnone(self._reader) and isnone(self._writer)'),
                                                             ('C18', 'idempotent', 'implies(isnone(old(self._writer)), G.now == old(G.now))')],
         raises={},
         doc='writer.close + wait_closed (OSError tolerated), both fields cleared; idempotent')
