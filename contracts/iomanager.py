"""Contracts for _AdbIOManager / _AdbIOManagerAsync: byte and packet layer (C02 _send, C03, C11, C15)."""
from pyvc.dsl import contract, klass

klass('Store', {'_dict': 'dict2'}, real='hidden_helpers:_AdbPacketStore')

klass('IOManager', {'_packet_store': 'obj:Store', '_transport': 'obj:Transport', '_store_lock': 'lock:store',
                    '_transport_lock': 'lock:transport'},
      real={'sync': 'adb_device:_AdbIOManager', 'async': 'adb_device_async:_AdbIOManagerAsync'})

R = 'ite(adb_info.read_timeout_s > 0, adb_info.read_timeout_s, 0)'
T = 'ite(val(adb_info.transport_timeout_s) > 0, val(adb_info.transport_timeout_s), 0)'
TNN = 'not isnone(adb_info.transport_timeout_s)'
CPU = '(G.cpu - old(G.cpu))'


def real(name):
    return {'sync': 'adb_device:_AdbIOManager.' + name, 'async': 'adb_device_async:_AdbIOManagerAsync.' + name}


# ---------------------------------------------------------------------------------------------------------------------
contract('IOManager._read_bytes_from_device',
         real=real('_read_bytes_from_device'),
         params={'self': 'obj:IOManager', 'length': 'int', 'adb_info': 'obj:AdbInfo'},
         returns='bytes',
         props=['C03', 'C11', 'C06', 'C12', 'C01', 'C08', 'C09'],
         requires=['length >= 0', 'G.rpos >= 0 and G.rpos <= len(G.dev)',
                   ('C06', 'transport-owned', 'G.held_transport')],
         modifies=['G.rpos', 'G.now', 'G.cpu'],
         ensures=[('C03,C01,C08,C09', 'exact-slice', 'result == G.dev[old(G.rpos):old(G.rpos) + length]'),
                  ('C03,C01,C08,C09', 'exact-length', 'len(result) == length'),
                  ('C03,C01,C08,C09', 'cursor', 'G.rpos == old(G.rpos) + length and G.rpos <= len(G.dev)'),
                  ('C11', 'duration', 'implies(%s, G.now - old(G.now) <= %s + %s + %s)' % (TNN, R, T, CPU)),
                  ('C11', 'clock-monotone', 'G.now >= old(G.now) and G.cpu >= old(G.cpu)'),
                  ('C06,C12', 'locks-unchanged', 'G.held_transport == old(G.held_transport)')],
         raises={'AdbTimeoutError': [('C11,C03,C01,C08,C09', 'timeout-only-after-deadline', 'G.now - old(G.now) > adb_info.read_timeout_s'),
                                     ('C11', 'duration', 'implies(%s, G.now - old(G.now) <= %s + %s + %s)' % (TNN, R, T, CPU)),
                                     ('C03,C01,C08,C09', 'partial-progress', 'G.rpos >= old(G.rpos) and G.rpos < old(G.rpos) + length and G.rpos <= len(G.dev)'),
                                     'G.now >= old(G.now) and G.cpu >= old(G.cpu)'],
                 '*': [('C11', 'duration', 'implies(%s, G.now - old(G.now) <= %s + %s + %s)' % (TNN, R, T, CPU)),
                       'G.rpos >= old(G.rpos) and G.rpos <= len(G.dev)',
                       'G.now >= old(G.now) and G.cpu >= old(G.cpu)']},
         call_asserts={'Transport.bulk_read': [('C03,C01,C08,C09', 'never-over-request', '_arg_numbytes == _0length - len(data) and _arg_numbytes > 0'),
                                               ('C11', 'timeout-passed', 'same(_arg_transport_timeout_s, adb_info.transport_timeout_s)')]},
         loops={0: dict(invariant=[
             ('C03,C11,C01,C08,C09', 'data == G.dev[old(G.rpos):G.rpos]'),
             ('C03,C11,C01,C08,C09', 'G.rpos == old(G.rpos) + len(data)'),
             ('C03,C11,C01,C08,C09', 'length + len(data) == _0length and length >= 0'),
             ('C03,C11,C01,C08,C09', 'G.rpos <= len(G.dev) and old(G.rpos) >= 0'),
             ('C03,C11,C01,C08,C09', 'isbytearray(data)'),
             ('C11', 'G.now - start <= %s' % R),
             ('C11', 'G.now >= start and start >= old(G.now) and G.cpu >= old(G.cpu) and start - old(G.now) <= G.cpu - old(G.cpu)'),
         ])},
         doc='reassembles exactly `length` bytes of the device stream however bulk_read fragments it; never asks for more than remain')

contract('IOManager._read_packet_from_device',
         real=real('_read_packet_from_device'),
         params={'self': 'obj:IOManager', 'adb_info': 'obj:AdbInfo'},
         returns='tuple[bytes,int,int,bytes]',
         props=['C03', 'C11', 'C06', 'C12', 'C01', 'C08', 'C09'],
         requires=['G.rpos >= 0 and G.rpos <= len(G.dev)', ('C06', 'transport-owned', 'G.held_transport')],
         modifies=['G.rpos', 'G.now', 'G.cpu'],
         ensures=[('C03,C01,C08,C09', 'cursor-within-stream', 'G.rpos >= old(G.rpos) + 24 and G.rpos <= len(G.dev)'),
                  ('C03,C01,C08,C09', 'known-command', 'unle32(G.dev[old(G.rpos):old(G.rpos) + 4]) in WIRE_TO_ID'),
                  ('C03,C01,C08,C09', 'command', 'result[0] == WIRE_TO_ID[unle32(G.dev[old(G.rpos):old(G.rpos) + 4])]'),
                  ('C03,C01,C08,C09', 'args', 'result[1] == unle32(G.dev[old(G.rpos) + 4:old(G.rpos) + 8]) and result[2] == unle32(G.dev[old(G.rpos) + 8:old(G.rpos) + 12])'),
                  ('C03,C01,C08,C09', 'payload', 'result[3] == G.dev[old(G.rpos) + 24:old(G.rpos) + 24 + unle32(G.dev[old(G.rpos) + 12:old(G.rpos) + 16])]'),
                  ('C03,C01,C08,C09', 'payload-length', 'len(result[3]) == unle32(G.dev[old(G.rpos) + 12:old(G.rpos) + 16])'),
                  ('C03,C01,C08,C09', 'checksum-verified',
                   'len(result[3]) == 0 or bsum(result[3]) % 2**32 == unle32(G.dev[old(G.rpos) + 16:old(G.rpos) + 20])'),
                  ('C03,C01,C08,C09', 'cursor', 'G.rpos == old(G.rpos) + 24 + len(result[3]) and G.rpos <= len(G.dev)'),
                  'result[1] >= 0 and result[1] < 2**32 and result[2] >= 0 and result[2] < 2**32 and result[0] in IDS',
                  ('C11', 'duration', 'implies(%s, G.now - old(G.now) <= 2 * (%s + %s) + %s)' % (TNN, R, T, CPU)),
                  ('C11', 'clock-monotone', 'G.now >= old(G.now) and G.cpu >= old(G.cpu)')],
         raises={'InvalidCommandError': [('C03,C01,C08,C09', 'unknown-command-only', 'unle32(G.dev[old(G.rpos):old(G.rpos) + 4]) not in WIRE_TO_ID'),
                                         'G.now >= old(G.now) and G.cpu >= old(G.cpu)', 'G.rpos >= old(G.rpos) and G.rpos <= len(G.dev)',
                                         ('C11', 'duration', 'implies(%s, G.now - old(G.now) <= 2 * (%s + %s) + %s)' % (TNN, R, T, CPU))],
                 'InvalidChecksumError': [('C03,C01,C08,C09', 'only-after-the-command-word-was-accepted', 'unle32(G.dev[old(G.rpos):old(G.rpos) + 4]) in WIRE_TO_ID'),
                                          ('C03,C01,C08,C09', 'mismatch-only',
                                           'unle32(G.dev[old(G.rpos) + 12:old(G.rpos) + 16]) > 0 and '
                                           'bsum(G.dev[old(G.rpos) + 24:old(G.rpos) + 24 + unle32(G.dev[old(G.rpos) + 12:old(G.rpos) + 16])]) % 2**32'
                                           ' != unle32(G.dev[old(G.rpos) + 16:old(G.rpos) + 20])'),
                                          'G.now >= old(G.now) and G.cpu >= old(G.cpu)', 'G.rpos >= old(G.rpos) and G.rpos <= len(G.dev)',
                                          ('C11', 'duration', 'implies(%s, G.now - old(G.now) <= 2 * (%s + %s) + %s)' % (TNN, R, T, CPU))],
                 'AdbTimeoutError': [('C11', 'duration', 'implies(%s, G.now - old(G.now) <= 2 * (%s + %s) + %s)' % (TNN, R, T, CPU)),
                                     ('C11,C03,C01,C08,C09', 'timeout-only-after-deadline', 'G.now - old(G.now) > adb_info.read_timeout_s'),
                                     'G.now >= old(G.now) and G.cpu >= old(G.cpu)', 'G.rpos >= old(G.rpos) and G.rpos <= len(G.dev)'],
                 '*': [('C11', 'duration', 'implies(%s, G.now - old(G.now) <= 2 * (%s + %s) + %s)' % (TNN, R, T, CPU)),
                       'G.now >= old(G.now) and G.cpu >= old(G.cpu)', 'G.rpos >= old(G.rpos) and G.rpos <= len(G.dev)']},
         doc='header decode, command lookup, checksum verification: a corrupt non-empty payload or unknown command is never returned')

WF_MSG = 'msg.command >= 0 and msg.command < 2**32 and msg.magic == 2**32 - 1 - msg.command'
FRAME = 'hdr(msg.command, val(msg.arg0), val(msg.arg1), len(msg.data), bsum(msg.data) % 2**32, msg.magic) + msg.data'

WR_DUR = 'implies(%s, G.now - old(G.now) <= %s + %s + %s)' % (TNN, R, T, CPU)
SEND_DUR = 'implies(%s, G.now - old(G.now) <= 2 * (%s + %s) + %s)' % (TNN, R, T, CPU)

contract('IOManager._write_bytes_to_device',
         real=real('_write_bytes_to_device'),
         params={'self': 'obj:IOManager', 'data': 'bytes', 'adb_info': 'obj:AdbInfo'},
         variants=[{'data': 'bytes'}, {'data': 'bytearray'}],
         props=['C15', 'C02', 'C11', 'C06', 'C12'],
         requires=[('C06,C02', 'transport-owned', 'G.held_transport')],
         modifies=['G.wire', 'G.nwrites', 'G.peer_rx', 'G.short', 'G.now', 'G.cpu'],
         ensures=[('C15', 'peer-receives-every-byte-in-order', 'G.peer_rx == old(G.peer_rx) + data'),
                  ('C02,C15', 'writes-only-when-there-is-something-to-write', 'implies(len(data) == 0, G.nwrites == old(G.nwrites) and G.wire == old(G.wire))'),
                  ('C02,C15', 'at-least-one-write-otherwise', 'implies(len(data) > 0, G.nwrites > old(G.nwrites))'),
                  ('C11', 'duration', WR_DUR),
                  'G.now >= old(G.now) and G.cpu >= old(G.cpu)'],
         raises={'AdbTimeoutError': [('C11', 'timeout-only-after-deadline', 'G.now - old(G.now) > adb_info.read_timeout_s'),
                                     ('C11', 'duration', WR_DUR), ('C15', 'a-prefix-was-delivered', 'len(G.peer_rx) < len(old(G.peer_rx)) + len(data)'),
                                     'G.now >= old(G.now) and G.cpu >= old(G.cpu)'],
                 '*': [('C11', 'duration', WR_DUR), 'G.now >= old(G.now) and G.cpu >= old(G.cpu)']},
         call_asserts={'Transport.bulk_write': [('C11', 'timeout-passed', 'same(_arg_transport_timeout_s, adb_info.transport_timeout_s)'),
                                                ('C15', 'resends-exactly-the-unsent-remainder', '_arg_data == _0data[len(_0data) - len(data):] and len(_arg_data) > 0')]},
         loops={0: dict(invariant=[
             ('C15,C11,C02', 'G.peer_rx + data == old(G.peer_rx) + _0data and len(data) <= len(_0data)'),
             ('C15,C11,C02', 'total == len(_0data) and data == _0data[len(_0data) - len(data):]'),
             ('C02,C15', 'implies(len(data) < len(_0data), G.nwrites > old(G.nwrites)) and G.nwrites >= old(G.nwrites)'),
             ('C02,C15', 'implies(len(_0data) == 0, G.nwrites == old(G.nwrites) and G.wire == old(G.wire))'),
             ('C11', 'implies(len(data) > 0, G.now - start <= %s) and implies(%s, G.now - start <= %s + %s)' % (R, TNN, R, T)),
             ('C11', 'G.now >= start and start >= old(G.now) and G.cpu >= old(G.cpu) and start - old(G.now) <= G.cpu - old(G.cpu)'),
         ])},
         doc='writes the unsent remainder until the transport has accepted every byte; bounded by the read deadline')

WF_MSG = 'msg.command >= 0 and msg.command < 2**32 and msg.magic == 2**32 - 1 - msg.command'
FRAME = 'hdr(msg.command, val(msg.arg0), val(msg.arg1), len(msg.data), bsum(msg.data) % 2**32, msg.magic) + msg.data'

contract('IOManager._send',
         real=real('_send'),
         params={'self': 'obj:IOManager', 'msg': 'obj:Msg', 'adb_info': 'obj:AdbInfo'},
         variants=[{'msg.data': 'bytes'}, {'msg.data': 'bytearray'}],
         props=['C02', 'C15', 'C11', 'C06', 'C12'],
         requires=[WF_MSG, ('C06,C02', 'transport-owned', 'G.held_transport')],
         modifies=['G.wire', 'G.nwrites', 'G.peer_rx', 'G.short', 'G.now', 'G.cpu'],
         ensures=[('C02,C15', 'peer-receives-header-then-payload-completely', 'G.peer_rx == old(G.peer_rx) + ' + FRAME),
                  ('C02', 'something-was-written', 'G.nwrites > old(G.nwrites)'),
                  ('C11', 'duration', SEND_DUR),
                  'G.now >= old(G.now) and G.cpu >= old(G.cpu)'],
         raises={'struct.error': [('C02', 'unframeable-writes-nothing', 'G.wire == old(G.wire) and G.nwrites == old(G.nwrites) and G.peer_rx == old(G.peer_rx)'),
                                  ('C11', 'duration', SEND_DUR), 'G.now >= old(G.now) and G.cpu >= old(G.cpu)'],
                 'AdbTimeoutError': [('C11', 'duration', SEND_DUR), 'G.now >= old(G.now) and G.cpu >= old(G.cpu)'],
                 '*': [('C11', 'duration', SEND_DUR), 'G.now >= old(G.now) and G.cpu >= old(G.cpu)']},
         call_asserts={'IOManager._write_bytes_to_device': [('C02', 'header-first-then-payload-only-if-nonempty',
                                                             'ite(G.peer_rx == old(G.peer_rx) and G.nwrites == old(G.nwrites), len(_arg_data) == 24, '
                                                             'same(_arg_data, msg.data) and len(msg.data) > 0)')]},
         doc='header then payload, payload write omitted iff empty; the peer receives the whole frame or the call raises')


# ---------------------------------------------------------------------------------------------------------------------
# read / send / close / _read_expected_packet_from_device

STORE = 'self._packet_store'
LID = 'val(adb_info.local_id)'
REM = 'adb_info.remote_id'


def PEND(store):
    base = 'exists_pending(%s, %s, %s)' % (store, REM, LID)
    z = '(allow_zeros and (exists_pending(%s, %s, 0) or exists_pending(%s, 0, %s) or exists_pending(%s, 0, 0)))' % (store, REM, store, LID, store)
    return '(%s or %s)' % (base, z)


def KEYMATCH(k0, k1):
    return ('(matches_pat({0}, {1}, {2}, {3}) or (allow_zeros and (matches_pat({0}, {1}, {2}, 0) or matches_pat({0}, {1}, 0, {3}) '
            'or matches_pat({0}, {1}, 0, 0))))').format(k0, k1, REM, LID)


def MATCH(a0, a1):
    return ('(({1} == {3} or (allow_zeros and {1} == 0)) and (isnone({2}) or {0} == val({2}) or (allow_zeros and {0} == 0)))'
            ).format(a0, a1, REM, LID)


STORE_LOOP_INV = [
    ('C06,C01,C11', 'iff(isnone(arg0_arg1), not %s)' % PEND(STORE)),
    ('C06,C01,C11', 'implies(not isnone(arg0_arg1), pending(%s, val(arg0_arg1)[0], val(arg0_arg1)[1]) and %s)'
     % (STORE, KEYMATCH('val(arg0_arg1)[0]', 'val(arg0_arg1)[1]'))),
]
DUR3 = 'implies(%s, G.now - old(G.now) <= 3 * %s + 2 * %s + %s)' % (TNN, R, T, CPU)
MONO = 'G.now >= old(G.now) and G.cpu >= old(G.cpu) and G.rpos >= old(G.rpos) and G.rpos <= len(G.dev)'
UNLOCKED = 'not G.held_transport and not G.held_store and not G.held_local_id'
STORE_OWNED = [('C06', 'store-owned', 'G.held_store')]

contract('IOManager.read',
         real=real('read'),
         params={'self': 'obj:IOManager', 'expected_cmds': 'cmdset', 'adb_info': 'obj:AdbInfo', 'allow_zeros': 'bool'},
         returns='tuple[bytes,int,int,bytes]',
         props=['C06', 'C01', 'C11', 'C12', 'C10'],
         requires=['not isnone(adb_info.local_id)', 'G.rpos >= 0 and G.rpos <= len(G.dev)',
                   ('C06,C12', 'no-lock-held-on-entry', UNLOCKED)],
         modifies=['G.rpos', 'G.now', 'G.cpu', 'G.di', 'self._packet_store._dict'],
         ghost_exit=[('G.di', 'store(G.di, %s, G.di[%s] + 1)' % (LID, LID))],
         defines=['result == (D_cmd({0}, old(G.di)[{0}]), D_a0({0}, old(G.di)[{0}]), D_a1({0}, old(G.di)[{0}]), D_data({0}, old(G.di)[{0}]))'.format(LID)],
         ensures=[('C01,C06,C10', 'command-is-expected', 'result[0] in expected_cmds'),
                  ('C01,C06', 'one-packet-delivered', 'G.di == store(old(G.di), {0}, old(G.di)[{0}] + 1)'.format(LID)),
                  ('C01,C06', 'packet-belongs-to-this-stream', MATCH('result[1]', 'result[2]')),
                  ('C06,C12', 'locks-released', UNLOCKED),
                  ('C11', 'duration', DUR3),
                  ('C11,C06', 'monotone', MONO)],
         raises={'AdbTimeoutError': [('C06,C12', 'locks-released', UNLOCKED), ('C11', 'duration', DUR3), MONO,
                                     ('C11', 'timeout-only-after-deadline', 'G.now - old(G.now) > adb_info.read_timeout_s'),
                                     ('C06,C01', 'gives-up-only-when-nothing-is-parked-for-this-stream', 'not ' + PEND(STORE))],
                 'InvalidCommandError': [('C06,C12', 'locks-released', UNLOCKED), ('C11', 'duration', DUR3), MONO],
                 'InvalidChecksumError': [('C06,C12', 'locks-released', UNLOCKED), ('C11', 'duration', DUR3), MONO],
                 '*': [('C06,C12', 'locks-released', UNLOCKED), ('C11', 'duration', DUR3), MONO]},
         at_return={0: [('C06', 'fifo-from-matching-key', MATCH('result[1]', 'result[2]'))],
                    1: [('C06', 'fifo-from-matching-key', MATCH('result[1]', 'result[2]'))],
                    2: [('C06', 'direct-delivery-only-when-nothing-parked', 'not ' + PEND(STORE))]},
         # rely (C06): other readers park packets for this stream only while THEY hold the transport lock, and nobody else consumes this
         # stream's parked packets (one reader per stream).  So "is a packet parked for me" is stable exactly while this reader holds
         # the transport lock; everything else in the store may change whenever the store lock is not held.
         interference={'transport': dict(props=['C06', 'C01'], havoc=['self._packet_store._dict'], stable=[]),
                       'store': dict(props=['C06', 'C01'], havoc=['self._packet_store._dict'], stable=[('G.held_transport', PEND(STORE))])},
         call_asserts={
             'IOManager._read_packet_from_device': [('C06,C01', 'wire-is-read-only-when-nothing-is-parked-for-this-stream', 'not ' + PEND(STORE))],
             'Store.find': STORE_OWNED, 'Store.find_allow_zeros': STORE_OWNED, 'Store.get': STORE_OWNED,
             'Store.put': STORE_OWNED + [('C06', 'parks-the-foreign-packet-unchanged-under-its-own-key',
                                          '_arg_arg0 == arg0 and _arg_arg1 == arg1 and _arg_cmd == cmd and _arg_data == data and not '
                                          + MATCH('arg0', 'arg1'))],
             'Store.clear': STORE_OWNED + [('C06', 'forgets-only-own-closed-stream',
                                            '_arg_arg0 == arg0 and _arg_arg1 == arg1 and cmd == CLSE and ' + MATCH('arg0', 'arg1'))]},
         loops={('while arg0_arg1', 0): dict(invariant=STORE_LOOP_INV + ['G.now == old(G.now) and G.cpu == old(G.cpu) and G.rpos == old(G.rpos)']),
                'while True': dict(invariant=[('C06,C11,C12', UNLOCKED),
                                   ('C11,C06', 'G.rpos >= old(G.rpos) and G.rpos <= len(G.dev) and G.rpos >= 0'),
                                   ('C11', 'G.now - start <= %s and G.now >= start and start >= old(G.now)' % R),
                                   ('C11', 'start - old(G.now) <= G.cpu - old(G.cpu) and G.cpu >= old(G.cpu)')]),
                'while arg0_arg1': dict(invariant=STORE_LOOP_INV)},
         doc='the next packet for this stream: parked packets first (FIFO per key), then the wire; foreign packets are parked, '
             'matching packets with an unexpected command are consumed and discarded')

contract('IOManager.send',
         real=real('send'),
         params={'self': 'obj:IOManager', 'msg': 'obj:Msg', 'adb_info': 'obj:AdbInfo'},
         props=['C02', 'C15', 'C11', 'C06', 'C12', 'C04'],
         requires=[WF_MSG, ('C06,C12', 'no-lock-held-on-entry', UNLOCKED)],
         modifies=['G.wire', 'G.nwrites', 'G.peer_rx', 'G.short', 'G.now', 'G.cpu'],
         ensures=[('C02,C04,C15', 'peer-receives-exactly-one-whole-frame', 'G.peer_rx == old(G.peer_rx) + ' + FRAME),
                  ('C06,C12', 'locks-released', UNLOCKED),
                  ('C11', 'duration', SEND_DUR),
                  'G.now >= old(G.now) and G.cpu >= old(G.cpu)'],
         raises={'struct.error': [('C02', 'unframeable-writes-nothing', 'G.peer_rx == old(G.peer_rx) and G.nwrites == old(G.nwrites)'), ('C06,C12', 'locks-released', UNLOCKED),
                                  ('C11', 'duration', SEND_DUR), 'G.now >= old(G.now) and G.cpu >= old(G.cpu)'],
                 'AdbTimeoutError': [('C06,C12', 'locks-released', UNLOCKED), ('C11', 'duration', SEND_DUR), 'G.now >= old(G.now) and G.cpu >= old(G.cpu)'],
                 '*': [('C06,C12', 'locks-released', UNLOCKED), ('C11', 'duration', SEND_DUR),
                       'G.now >= old(G.now) and G.cpu >= old(G.cpu)']})

contract('IOManager.close',
         real=real('close'),
         params={'self': 'obj:IOManager'},
         props=['C12', 'C06', 'C19'],
         requires=[('C06,C12', 'no-lock-held-on-entry', UNLOCKED)],
         modifies=['G.topen', 'G.now', 'self._packet_store._dict'],
         ensures=[('C12', 'transport-closed', 'not G.topen'), ('C12', 'store-cleared', 'none_present(self._packet_store)'),
                  ('C06,C12', 'locks-released', UNLOCKED)],
         raises={'*': [('C06,C12', 'locks-released', UNLOCKED)]},
         call_asserts={'Store.clear_all': STORE_OWNED})

HS = '(0 - 1)'      # pseudo stream id of the connection handshake in the delivered log
DUR_E = 'implies(%s, G.now - old(G.now) <= 3 * %s + 2 * %s + %s)' % (TNN, R, T, CPU)

contract('IOManager._read_expected_packet_from_device',
         real=real('_read_expected_packet_from_device'),
         params={'self': 'obj:IOManager', 'expected_cmds': 'cmdset', 'adb_info': 'obj:AdbInfo'},
         returns='tuple[bytes,int,int,bytes]',
         props=['C05', 'C11', 'C12', 'C06', 'C03'],
         requires=['G.rpos >= 0 and G.rpos <= len(G.dev)', ('C06', 'transport-owned', 'G.held_transport')],
         modifies=['G.rpos', 'G.now', 'G.cpu', 'G.di'],
         ghost_exit=[('G.di', 'store(G.di, %s, G.di[%s] + 1)' % (HS, HS))],
         defines=['result == (D_cmd({0}, old(G.di)[{0}]), D_a0({0}, old(G.di)[{0}]), D_a1({0}, old(G.di)[{0}]), D_data({0}, old(G.di)[{0}]))'.format(HS)],
         ensures=[('C05', 'command-is-expected', 'result[0] in expected_cmds'),
                  ('C05', 'one-reply-consumed', 'G.di == store(old(G.di), {0}, old(G.di)[{0}] + 1)'.format(HS)),
                  ('C11', 'duration', DUR_E), MONO,
                  'result[1] >= 0 and result[1] < 2**32 and result[2] >= 0 and result[2] < 2**32'],
         raises={'AdbTimeoutError': [('C11', 'duration', DUR_E), MONO,
                                     ('C11', 'timeout-only-after-deadline', 'G.now - old(G.now) > adb_info.read_timeout_s')],
                 'InvalidCommandError': [('C11', 'duration', DUR_E), MONO],
                 'InvalidChecksumError': [('C11', 'duration', DUR_E), MONO],
                 '*': [('C11', 'duration', DUR_E), MONO]},
         loops={0: dict(invariant=[('C05,C11', 'G.rpos >= old(G.rpos) and G.rpos <= len(G.dev) and G.rpos >= 0 and G.held_transport'),
                                   ('C11', 'G.now - start <= %s and G.now >= start and start >= old(G.now)' % R),
                                   ('C11', 'start - old(G.now) <= G.cpu - old(G.cpu) and G.cpu >= old(G.cpu)'),
                                   ('C05,C11', 'G.di == old(G.di)')])},
         doc='the next device packet whose command is expected; strays before it are skipped; bounded by the read deadline')
