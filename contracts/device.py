"""Contracts for AdbDevice / AdbDeviceAsync and _AdbIOManager.connect.

Per-stream delivered log (history variable, defined by IOManager.read at each return):
    D_cmd(lid, i), D_a0(lid, i), D_a1(lid, i), D_data(lid, i)   the i-th packet delivered to the reader of stream `lid`
    G.di[lid]                                                  how many have been delivered so far
    lid = -1 is the connection handshake (replies read by _read_expected_packet_from_device).
"""
from pyvc.dsl import contract, klass
from contracts.iomanager import R, T, TNN, CPU, UNLOCKED, MONO, HS

klass('AdbDevice', {'_banner': 'opt[bytes]', '_io_manager': 'obj:IOManager', '_available': 'bool',
                    '_default_transport_timeout_s': 'opt[real]', '_local_id': 'int', '_local_id_lock': 'lock:local_id',
                    '_maxdata': 'int'},
      real={'sync': 'adb_device:AdbDevice', 'async': 'adb_device_async:AdbDeviceAsync'})

klass('Signer', {}, real=None, check_init=False)


def dev(name):
    return {'sync': 'adb_device:AdbDevice.' + name, 'async': 'adb_device_async:AdbDeviceAsync.' + name}


def iom(name):
    return {'sync': 'adb_device:_AdbIOManager.' + name, 'async': 'adb_device_async:_AdbIOManagerAsync.' + name}


LID = 'val(adb_info.local_id)'
DI0 = 'old(G.di)[%s]' % LID
IO_MOD = ['G.wire', 'G.nwrites', 'G.peer_rx', 'G.short', 'G.now', 'G.cpu']
RD_MOD = ['G.rpos', 'G.now', 'G.cpu', 'G.di', 'G.sgot', 'self._io_manager._packet_store._dict']
STREAM_OK = ['not isnone(adb_info.local_id) and not isnone(adb_info.remote_id)', 'G.rpos >= 0 and G.rpos <= len(G.dev)']
NOLOCK = ('C06,C12', 'no-lock-held-on-entry', UNLOCKED)
RELEASED = ('C06,C12', 'locks-released', UNLOCKED)
MONO_IO = 'G.now >= old(G.now) and G.cpu >= old(G.cpu)'
ANY_EXC = ['AdbTimeoutError', 'InvalidCommandError', 'InvalidChecksumError', 'struct.error', '*']


def exc_all(clauses, names=ANY_EXC):
    return {n: list(clauses) for n in names}


# ======================================================================================================================
# Signers and callbacks (opaque; their cryptographic content is C17)

contract('Signer.Sign', trusted=True,
         params={'self': 'opaque:Signer', 'data': 'bytes'}, returns='bytes',
         modifies=['G.nsign', 'G.now'],
         ensures=['result == SIG(self, data)', 'G.nsign == old(G.nsign) + 1', 'G.now >= old(G.now)'],
         raises={'*': ['G.nsign == old(G.nsign) + 1', 'G.now >= old(G.now)']})

contract('Signer.GetPublicKey', trusted=True,
         params={'self': 'opaque:Signer'}, returns='bytes',
         modifies=['G.now'],
         ensures=['result == PUBKEY(self)', 'G.now >= old(G.now)'],
         raises={'*': ['G.now >= old(G.now)']})

contract('AuthCallback.__call__', trusted=True,
         params={'self': 'opaque:AuthCallback', 'device': 'obj:IOManager'},
         modifies=['G.cb_calls', 'G.now'],
         ensures=['G.cb_calls == old(G.cb_calls) + 1', 'G.now >= old(G.now)'],
         raises={'*': ['G.cb_calls == old(G.cb_calls) + 1', 'G.now >= old(G.now)']})

# ======================================================================================================================
# _AdbIOManager.connect  (C05)

H0 = 'old(G.di)[%s]' % HS
CNXN_FRAME = "frame(CNXN, VERSION, MAX_ADB_DATA, b'host::' + banner + b'\\0')"
CONN_EXC = [('C12,C06', 'locks-released', UNLOCKED), MONO_IO]

contract('IOManager.connect',
         real=iom('connect'),
         params={'self': 'obj:IOManager', 'banner': 'bytes', 'rsa_keys': 'opt[list[opaque:Signer]]', 'auth_timeout_s': 'opt[real]',
                 'auth_callback': 'opt[opaque:AuthCallback]', 'adb_info': 'obj:AdbInfo'},
         variants=[{'banner': 'bytes'}, {'banner': 'bytearray'}],
         returns='tuple[bool,int]',
         props=['C05', 'C12', 'C06', 'C11', 'C13'],
         requires=[NOLOCK],
         modifies=IO_MOD + ['G.rpos', 'G.di', 'G.topen', 'G.session', 'G.dev', 'G.nsign', 'G.cb_calls', 'self._packet_store._dict',
                            'adb_info.transport_timeout_s'],
         ensures=[('C05,C13', 'reports-success', 'result[0] == True'),
                  ('C05,C13', 'last-reply-is-CNXN', 'D_cmd({0}, G.di[{0}] - 1) == CNXN and G.di[{0}] >= {1} + 1'.format(HS, H0)),
                  ('C05', 'adopts-maxdata-of-that-CNXN', 'result[1] == D_a1({0}, G.di[{0}] - 1)'.format(HS)),
                  ('C05', 'one-signature-per-AUTH-reply', 'G.nsign - old(G.nsign) <= G.di[{0}] - {1} - 1 and G.nsign >= old(G.nsign)'.format(HS, H0)),
                  ('C05', 'signs-stop-at-first-CNXN',
                   'implies(isnone(rsa_keys) or len(val(rsa_keys)) == 0 or D_cmd({0}, {1}) == CNXN, G.nsign == old(G.nsign))'.format(HS, H0)),
                  ('C05', 'callback-at-most-once-and-only-after-all-keys',
                   'G.cb_calls == old(G.cb_calls) or (G.cb_calls == old(G.cb_calls) + 1 and not isnone(auth_callback) '
                   'and G.nsign == old(G.nsign) + len(val(rsa_keys)))'),
                  ('C05,C12', 'fresh-session', 'G.session == old(G.session) + 1 and G.topen'),
                  ('C12,C06', 'locks-released', UNLOCKED), MONO_IO],
         raises={'DeviceAuthError': CONN_EXC + [('C05', 'challenged-without-keys',
                                                 'D_cmd({0}, {1}) == AUTH and (isnone(rsa_keys) or len(val(rsa_keys)) == 0)'.format(HS, H0)),
                                                ('C05', 'transport-closed', 'not G.topen'),
                                                ('C05', 'nothing-signed', 'G.nsign == old(G.nsign) and G.cb_calls == old(G.cb_calls)')],
                 'InvalidResponseError': CONN_EXC + [('C05', 'challenge-is-not-a-token',
                                                      'D_cmd({0}, G.di[{0}] - 1) == AUTH and D_a0({0}, G.di[{0}] - 1) != AUTH_TOKEN'.format(HS)),
                                                     ('C05', 'transport-closed', 'not G.topen'),
                                                     ('C05', 'bad-challenge-never-signed', 'G.nsign - old(G.nsign) <= G.di[{0}] - {1} - 1'.format(HS, H0))],
                 'AdbTimeoutError': CONN_EXC, 'InvalidCommandError': CONN_EXC, 'InvalidChecksumError': CONN_EXC,
                 'struct.error': CONN_EXC, 'TypeError': CONN_EXC, '*': CONN_EXC},
         call_asserts={
             'Transport.connect': [('C05,C12', 'closes-and-clears-before-connecting', 'not G.topen and none_present(self._packet_store)'),
                                   ('C05', 'nothing-sent-before-connecting', 'G.wire == old(G.wire) and G.nwrites == old(G.nwrites)')],
             'IOManager._send': [
                 ('C05', 'first-message-is-CNXN',
                  'implies(G.nwrites == old(G.nwrites), _arg_msg.command == unle32(CNXN) and same(_arg_msg.arg0, VERSION) and same(_arg_msg.arg1, MAX_ADB_DATA) '
                  "and _arg_msg.data == b'host::' + banner + b'\\0')"),
                 ('C05', 'later-messages-are-AUTH',
                  'implies(G.nwrites != old(G.nwrites), _arg_msg.command == unle32(AUTH) and same(_arg_msg.arg1, 0) and '
                  '(same(_arg_msg.arg0, AUTH_SIGNATURE) or same(_arg_msg.arg0, AUTH_RSAPUBLICKEY)))'),
                 ('C05', 'public-key-is-first-keys-NUL-terminated-and-after-all-keys-and-callback',
                  "implies(same(_arg_msg.arg0, AUTH_RSAPUBLICKEY), _arg_msg.data == PUBKEY(val(rsa_keys)[0]) + b'\\0' "
                  'and G.nsign == old(G.nsign) + len(val(rsa_keys)) and G.cb_calls == old(G.cb_calls) + ite(isnone(auth_callback), 0, 1))'),
                 ('C05', 'signature-is-of-newest-token-by-key-i',
                  'implies(same(_arg_msg.arg0, AUTH_SIGNATURE) and G.nwrites != old(G.nwrites), '
                  '_arg_msg.data == SIG(val(rsa_keys)[_i], D_data({0}, {1} + _i)) and G.nsign == old(G.nsign) + _i + 1)'.format(HS, H0))],
             'Signer.Sign': [('C05', 'signs-newest-token-with-key-i-once',
                              'same(_arg_self, val(rsa_keys)[_i]) and _arg_data == D_data({0}, {1} + _i) and G.nsign == old(G.nsign) + _i '
                              'and D_a0({0}, {1} + _i) == AUTH_TOKEN and D_cmd({0}, {1} + _i) == AUTH'.format(HS, H0))],
             'AuthCallback.__call__': [('C05', 'callback-only-after-every-key-was-rejected',
                                        'G.nsign == old(G.nsign) + len(val(rsa_keys)) and G.cb_calls == old(G.cb_calls)')],
             'IOManager._read_expected_packet_from_device': [
                 ('C05,C11', 'final-wait-uses-auth-timeout',
                  'implies(not (AUTH in _arg_expected_cmds), same(adb_info.transport_timeout_s, auth_timeout_s))'),
                 ('C05,C11', 'earlier-waits-use-the-callers-timeout',
                  'implies(AUTH in _arg_expected_cmds, same(adb_info.transport_timeout_s, old(adb_info.transport_timeout_s)))')],
         },
         loops={0: dict(invariant=[
             ('C05,C12,C11', 'G.held_transport and not G.held_store and not G.held_local_id'),
             ('C05', 'cmd == D_cmd({0}, {1} + _i) and arg0 == D_a0({0}, {1} + _i) and maxdata == D_a1({0}, {1} + _i) and banner2 == D_data({0}, {1} + _i)'.format(HS, H0)),
             ('C05', 'cmd == AUTH'),
             ('C05', 'G.di[{0}] == {1} + _i + 1'.format(HS, H0)),
             ('C05', 'G.nsign == old(G.nsign) + _i and G.cb_calls == old(G.cb_calls)'),
             ('C05', 'G.nwrites > old(G.nwrites)'),
             ('C05,C12', 'G.topen and G.session == old(G.session) + 1'),
             ('C05,C11', 'G.rpos >= 0 and G.rpos <= len(G.dev) and G.now >= old(G.now) and G.cpu >= old(G.cpu)'),
             ('C05', 'not isnone(rsa_keys) and len(val(rsa_keys)) > 0'),
             ('C05,C11', 'same(adb_info.transport_timeout_s, old(adb_info.transport_timeout_s))'),
         ])},
         doc='CNXN, then per AUTH challenge one signature of the newest token with the next key, stop at the first CNXN; '
             'after all keys: callback once, first public key NUL-terminated, wait with auth_timeout_s')


# ======================================================================================================================
# AdbDevice: construction, availability, connect, close  (C13, C05, C12)

contract('AdbDevice.__init__',
         real=dev('__init__'),
         params={'self': 'obj:AdbDevice', 'transport': 'obj:Transport', 'default_transport_timeout_s': 'opt[real]', 'banner': 'opt[str]'},
         variants=[{'banner': 'opt[str]'}, {'banner': 'opt[bytes]'}, {'banner': 'opt[bytearray]'}, {'transport': 'opaque:NotATransport'}],
         props=['C13', 'C14', 'C12'],
         modifies=['self.*'],
         ensures=[('C13', 'starts-unavailable', 'not self._available'),
                  ('C14', 'counter-starts-at-zero', 'self._local_id == 0'),
                  ('C13,C12', 'settings-stored', 'same(self._default_transport_timeout_s, default_transport_timeout_s) and self._maxdata == MAX_PUSH_DATA'),
                  ('C12', 'fresh-empty-store', 'none_present(self._io_manager._packet_store)'),
                  ('C13', 'is-a-transport', 'istransport(transport)')],
         raises={'InvalidTransportError': [('C13', 'not-a-transport', 'not istransport(transport)')]})

contract('AdbDevice.close',
         real=dev('close'),
         params={'self': 'obj:AdbDevice'},
         props=['C13', 'C12'],
         requires=[NOLOCK],
         modifies=['self._available', 'G.topen', 'G.now', 'self._io_manager._packet_store._dict'],
         ensures=[('C13', 'unavailable-after-close', 'not self._available'), ('C12', 'transport-closed', 'not G.topen'),
                  ('C12', 'store-cleared', 'none_present(self._io_manager._packet_store)'), RELEASED],
         raises={'*': [('C13', 'unavailable-even-if-close-fails', 'not self._available'), RELEASED]})

CONNECT_MOD = IO_MOD + ['G.rpos', 'G.di', 'G.topen', 'G.session', 'G.dev', 'G.nsign', 'G.cb_calls', 'self._io_manager._packet_store._dict',
                        'self._available', 'self._maxdata', 'self._banner']
CONNECT_EXC = [('C05,C13', 'left-unavailable-when-connect-raises', 'not self._available'), RELEASED]

contract('AdbDevice.connect',
         real=dev('connect'),
         params={'self': 'obj:AdbDevice', 'rsa_keys': 'opt[list[opaque:Signer]]', 'transport_timeout_s': 'opt[real]', 'auth_timeout_s': 'opt[real]',
                 'read_timeout_s': 'real', 'auth_callback': 'opt[opaque:AuthCallback]'},
         returns='bool',
         props=['C05', 'C13', 'C12'],
         requires=[NOLOCK],
         modifies=CONNECT_MOD,
         ensures=[('C05,C13', 'success-marks-available', 'result == True and self._available'),
                  ('C05', 'adopts-device-maxdata', 'self._maxdata == D_a1({0}, G.di[{0}] - 1) and D_cmd({0}, G.di[{0}] - 1) == CNXN'.format(HS)),
                  ('C12', 'fresh-session', 'G.session == old(G.session) + 1 and G.topen'), RELEASED],
         raises={k: CONNECT_EXC for k in ['DeviceAuthError', 'InvalidResponseError', 'AdbTimeoutError', 'InvalidCommandError', 'InvalidChecksumError',
                                          'struct.error', 'TypeError', '*']},
         call_asserts={'IOManager.connect': [('C05,C13', 'unavailable-while-connecting', 'not self._available')]})

# ======================================================================================================================
# stream primitives: _open, _okay, _clse, _read_until  (C04, C14, C01)

OPEN_DUR = 'implies(not isnone(result.transport_timeout_s), True)'

from contracts.iomanager import R as _R, T as _T, TNN as _TNN, CPU as _CPU      # noqa: E402
# C11 at the stream level: one send is bounded by 2(R+T), one read by 3R+2T (contracts of IOManager.send / read), computation time aside
DUR_OKAY = ('C11', 'duration', 'implies(%s, G.now - old(G.now) <= 2 * (%s + %s) + %s)' % (_TNN, _R, _T, _CPU))
DUR_READ_UNTIL = ('C11', 'duration', 'implies(%s, G.now - old(G.now) <= 5 * %s + 4 * %s + %s)' % (_TNN, _R, _T, _CPU))
DUR_CLSE = ('C11', 'duration', 'implies(%s, G.now - old(G.now) <= 7 * %s + 6 * %s + %s)' % (_TNN, _R, _T, _CPU))

contract('AdbDevice._okay',
         real=dev('_okay'),
         params={'self': 'obj:AdbDevice', 'adb_info': 'obj:AdbInfo'},
         props=['C04', 'C01', 'C12', 'C11', 'C15', 'C13'],
         requires=STREAM_OK[:1] + [NOLOCK],
         modifies=IO_MOD,
         ensures=[('C04,C15', 'one-OKAY-with-local-then-remote-id', "G.peer_rx == old(G.peer_rx) + frame(OKAY, adb_info.local_id, adb_info.remote_id, b'')"),
                  RELEASED, MONO_IO, DUR_OKAY],
         raises={'struct.error': [('C04', 'nothing-written', 'G.peer_rx == old(G.peer_rx)'), RELEASED, MONO_IO, DUR_OKAY], 'AdbTimeoutError': [RELEASED, MONO_IO, DUR_OKAY],
                 '*': [RELEASED, MONO_IO, DUR_OKAY]})

contract('AdbDevice._read_until',
         real=dev('_read_until'),
         params={'self': 'obj:AdbDevice', 'expected_cmds': 'cmdset', 'adb_info': 'obj:AdbInfo'},
         returns='tuple[bytes,bytes]',
         props=['C04', 'C01', 'C12', 'C08', 'C10', 'C11', 'C15', 'C13'],
         requires=STREAM_OK + [NOLOCK],
         modifies=IO_MOD + RD_MOD,
         ghost_exit=[('G.sgot', 'store(G.sgot, {0}, G.sgot[{0}] + ite(result[0] == WRTE, len(result[1]), 0))'.format(LID))],
         defines=['implies(result[0] == WRTE, result[1] == SB({0}, old(G.sgot)[{0}], old(G.sgot)[{0}] + len(result[1])))'.format(LID)],
         ensures=[('C08,C09,C10', 'sync-bytes-received', 'G.sgot == store(old(G.sgot), {0}, old(G.sgot)[{0}] + ite(result[0] == WRTE, len(result[1]), 0))'.format(LID)),
                  ('C01,C04,C08', 'next-delivered-packet', 'result[0] == D_cmd({0}, {1}) and result[1] == D_data({0}, {1})'.format(LID, DI0)),
                  ('C01,C04,C08', 'one-packet-consumed', 'G.di == store(old(G.di), {0}, {1} + 1)'.format(LID, DI0)),
                  ('C01,C04,C10', 'command-is-expected', 'result[0] in expected_cmds'),
                  ('C04,C15', 'one-OKAY-per-delivered-WRTE-none-otherwise',
                   "G.peer_rx == old(G.peer_rx) + ite(result[0] == WRTE, frame(OKAY, adb_info.local_id, adb_info.remote_id, b''), b'')"),
                  RELEASED, MONO, DUR_READ_UNTIL],
         raises=exc_all([RELEASED, MONO, DUR_READ_UNTIL]))

contract('AdbDevice._clse',
         real=dev('_clse'),
         params={'self': 'obj:AdbDevice', 'adb_info': 'obj:AdbInfo'},
         props=['C04', 'C12', 'C08', 'C09', 'C11', 'C15', 'C13'],
         requires=STREAM_OK + [NOLOCK],
         modifies=IO_MOD + RD_MOD,
         ensures=[('C04,C15', 'exactly-one-CLSE-sent', "G.peer_rx == old(G.peer_rx) + frame(CLSE, adb_info.local_id, adb_info.remote_id, b'')"),
                  ('C04', 'device-CLSE-received', 'D_cmd({0}, {1}) == CLSE and G.di == store(old(G.di), {0}, {1} + 1)'.format(LID, DI0)),
                  ('C08,C09', 'no-sync-input-consumed', 'G.sgot == old(G.sgot)'),
                  RELEASED, MONO, DUR_CLSE],
         raises=exc_all([RELEASED, MONO, DUR_CLSE]))

NEXTID = 'nextid(old(self._local_id))'
OPEN_MOD = IO_MOD + RD_MOD + ['self._local_id', 'G.spos', 'G.sync_out', 'G.sync_flushed', 'G.pushed', 'G.nsync']

contract('AdbDevice._open',
         real=dev('_open'),
         params={'self': 'obj:AdbDevice', 'destination': 'bytes', 'transport_timeout_s': 'opt[real]', 'read_timeout_s': 'real', 'timeout_s': 'opt[real]'},
         returns='obj:AdbInfo',
         props=['C14', 'C04', 'C01', 'C11', 'C12', 'C06', 'C15', 'C13'],
         requires=['self._local_id >= 0 and self._local_id < 2**32', 'G.rpos >= 0 and G.rpos <= len(G.dev)', NOLOCK],
         modifies=OPEN_MOD,
         ghost_exit=[('G.spos', 'store(G.spos, self._local_id, G.sgot[self._local_id])'),
                     ('G.sync_out', 'store(G.sync_out, self._local_id, b"")'), ('G.sync_flushed', 'store(G.sync_flushed, self._local_id, b"")'),
                     ('G.pushed', 'store(G.pushed, self._local_id, b"")'), ('G.nsync', 'store(G.nsync, self._local_id, 0)')],
         ensures=[('C07', 'sync-output-logs-of-the-new-stream-start-empty',
                   'G.sync_out == store(old(G.sync_out), self._local_id, b"") and G.sync_flushed == store(old(G.sync_flushed), self._local_id, b"") '
                   'and G.pushed == store(old(G.pushed), self._local_id, b"") and G.nsync == store(old(G.nsync), self._local_id, 0)'),
                  ('C08,C09', 'sync-reader-starts-with-nothing-buffered', 'G.spos == store(old(G.spos), self._local_id, G.sgot[self._local_id]) and G.sgot == old(G.sgot)'),
                  ('C14,C04', 'next-id-with-wrap', 'self._local_id == %s' % NEXTID),
                  ('C14,C04', 'id-in-1..2^32-1', 'self._local_id >= 1 and self._local_id <= 2**32 - 1'),
                  ('C14,C04', 'stream-uses-that-id', 'same(result.local_id, self._local_id)'),
                  ('C04,C15', 'OPEN-with-fresh-id-arg1-0-NUL-terminated', "G.peer_rx == old(G.peer_rx) + frame(OPEN, self._local_id, 0, destination + b'\\0')"),
                  ('C04', 'remote-id-is-the-one-announced-in-OKAY',
                   'not isnone(result.remote_id) and val(result.remote_id) == D_a0({0}, old(G.di)[{0}]) and D_cmd({0}, old(G.di)[{0}]) == OKAY'.format(NEXTID)),
                  ('C04,C01', 'one-packet-consumed', 'G.di == store(old(G.di), {0}, old(G.di)[{0}] + 1)'.format(NEXTID)),
                  ('C11', 'timeouts-normalised', 'not isnone(result.transport_timeout_s) and val(result.transport_timeout_s) <= result.read_timeout_s '
                                                 'and implies(not isnone(timeout_s), result.read_timeout_s <= val(timeout_s)) and same(result.timeout_s, timeout_s)'),
                  ('C11', 'transport-timeout-default',
                   'val(result.transport_timeout_s) == ite(isnone(transport_timeout_s), ite(isnone(self._default_transport_timeout_s), result.read_timeout_s, '
                   'ite(result.read_timeout_s < val(self._default_transport_timeout_s), result.read_timeout_s, val(self._default_transport_timeout_s))), '
                   'ite(result.read_timeout_s < val(transport_timeout_s), result.read_timeout_s, val(transport_timeout_s)))'),
                  RELEASED, MONO],
         raises=exc_all([('C14,C04', 'id-advanced-even-on-failure', 'self._local_id == %s' % NEXTID), RELEASED, MONO]))


# ======================================================================================================================
# shell / exec chain  (C01, C04, C11, C13)

OKAYF = "frame(OKAY, adb_info.local_id, adb_info.remote_id, b'')"
CLSEF = "frame(CLSE, adb_info.local_id, adb_info.remote_id, b'')"

contract('AdbDevice._read_until_close',
         real=dev('_read_until_close'),
         params={'self': 'obj:AdbDevice', 'adb_info': 'obj:AdbInfo'},
         gen={'elem': 'D_data({0}, {1} + _i)'.format(LID, DI0), 'joined': 'catD({0}, {1}, _n)'.format(LID, DI0),
              'facts': ['D_cmd({0}, {1} + _i) == WRTE'.format(LID, DI0)]},
         props=['C01', 'C04', 'C11', 'C12', 'C15', 'C13'],
         requires=STREAM_OK + [NOLOCK],
         modifies=IO_MOD + RD_MOD,
         yield_havoc=[],
         on_yield=[('C01', 'yields-the-payloads-in-order', 'value == D_data({0}, {1} + _yi)'.format(LID, DI0)),
                   ('C01', 'only-WRTE-payloads', 'D_cmd({0}, {1} + _yi) == WRTE'.format(LID, DI0)),
                   ('C04', 'acknowledged-before-handing-out', 'G.peer_rx == old(G.peer_rx) + rep(%s, _yi + 1)' % OKAYF),
                   ('C01,C04', 'position', 'G.di == store(old(G.di), {0}, {1} + _yi + 1)'.format(LID, DI0))],
         ensures=[('C01', 'stops-at-the-first-CLSE', 'D_cmd({0}, {1} + _n) == CLSE'.format(LID, DI0)),
                  ('C01,C04', 'consumed-n-payloads-and-the-CLSE', 'G.di == store(old(G.di), {0}, {1} + _n + 1)'.format(LID, DI0)),
                  ('C04,C15', 'one-OKAY-per-WRTE-then-exactly-one-CLSE', 'G.peer_rx == old(G.peer_rx) + rep(%s, _n) + %s' % (OKAYF, CLSEF)),
                  RELEASED, MONO],
         raises=exc_all([RELEASED, MONO]),
         loops={0: dict(invariant=[
             ('C01,C04,C11', 'G.di == store(old(G.di), {0}, {1} + _yi)'.format(LID, DI0)),
             ('C04', 'G.peer_rx == old(G.peer_rx) + rep(%s, _yi)' % OKAYF),
             ('C01,C04,C11,C12', UNLOCKED),
             ('C01,C04,C11', MONO + ' and G.rpos >= 0'),
             ('C11', 'start >= old(G.now)'),
         ])},
         doc='yields the WRTE payloads of the stream one by one, each acknowledged, until the device CLSE, which is answered with one CLSE')

# after AdbTimeoutError the generator has consumed at least what it yielded -> see raises above
dsl_rc = None

contract('AdbDevice._streaming_command',
         real=dev('_streaming_command'),
         params={'self': 'obj:AdbDevice', 'service': 'bytes', 'command': 'bytes', 'transport_timeout_s': 'opt[real]', 'read_timeout_s': 'real',
                 'timeout_s': 'opt[real]'},
         gen={'elem': 'D_data({0}, old(G.di)[{0}] + 1 + _i)'.format(NEXTID), 'joined': 'catD({0}, old(G.di)[{0}] + 1, _n)'.format(NEXTID),
              'facts': ['D_cmd({0}, old(G.di)[{0}] + 1 + _i) == WRTE'.format(NEXTID)]},
         props=['C01', 'C04', 'C14', 'C12'],
         requires=['self._local_id >= 0 and self._local_id < 2**32', 'G.rpos >= 0 and G.rpos <= len(G.dev)', NOLOCK],
         modifies=OPEN_MOD,
         on_yield=[('C01', 'yields-the-payloads-in-order', 'value == D_data({0}, old(G.di)[{0}] + 1 + _yi)'.format(NEXTID)),
                   ('C01', 'only-WRTE-payloads', 'D_cmd({0}, old(G.di)[{0}] + 1 + _yi) == WRTE'.format(NEXTID))],
         ensures=[('C01', 'stops-at-the-first-CLSE', 'D_cmd({0}, old(G.di)[{0}] + 1 + _n) == CLSE and D_cmd({0}, old(G.di)[{0}]) == OKAY'.format(NEXTID)),
                  ('C01,C04', 'consumed-OKAY-n-payloads-CLSE', 'G.di == store(old(G.di), {0}, old(G.di)[{0}] + _n + 2)'.format(NEXTID)),
                  ('C14', 'stream-id', 'self._local_id == %s' % NEXTID),
                  ('C01,C04', 'OPEN-then-one-OKAY-per-WRTE-then-one-CLSE',
                   "G.peer_rx == old(G.peer_rx) + frame(OPEN, {0}, 0, service + b':' + command + b'\\0') + rep(frame(OKAY, {0}, D_a0({0}, old(G.di)[{0}]), b''), _n)"
                   " + frame(CLSE, {0}, D_a0({0}, old(G.di)[{0}]), b'')".format(NEXTID)),
                  RELEASED, MONO],
         raises=exc_all([RELEASED, MONO]),
         doc="OPEN 'service:command\\\\0' on a fresh stream, then as _read_until_close")

SVC_N = '(G.di[{0}] - old(G.di)[{0}] - 2)'.format(NEXTID)
SVC_BYTES = 'catD({0}, old(G.di)[{0}] + 1, {1})'.format(NEXTID, SVC_N)


def svc_wire(service_expr, command_expr):
    """OPEN 'service:command\0' on the fresh stream, one OKAY per delivered WRTE, one CLSE -- and nothing else."""
    rem = 'D_a0({0}, old(G.di)[{0}])'.format(NEXTID)
    return ("G.peer_rx == old(G.peer_rx) + frame(OPEN, {lid}, 0, {svc} + b':' + {cmd} + b'\\0') + rep(frame(OKAY, {lid}, {rem}, b''), {n})"
            " + frame(CLSE, {lid}, {rem}, b'')").format(lid=NEXTID, svc=service_expr, cmd=command_expr, rem=rem, n=SVC_N)


contract('AdbDevice._service',
         real=dev('_service'),
         params={'self': 'obj:AdbDevice', 'service': 'bytes', 'command': 'bytes', 'transport_timeout_s': 'opt[real]', 'read_timeout_s': 'real',
                 'timeout_s': 'opt[real]', 'decode': 'bool'},
         returns={'by': 'decode', True: 'str', False: 'bytes'},
         props=['C01', 'C04', 'C12'],
         requires=['self._local_id >= 0 and self._local_id < 2**32', 'G.rpos >= 0 and G.rpos <= len(G.dev)', NOLOCK],
         modifies=OPEN_MOD,
         ensures=[('C01', 'raw-result-is-the-exact-concatenation', 'implies(not decode, same(result, %s))' % SVC_BYTES),
                  ('C01', 'decoded-once-over-the-whole-concatenation-backslashreplace', 'implies(decode, same(result, dec_bsr(%s)))' % SVC_BYTES),
                  ('C01', 'payload-count-nonnegative', SVC_N + ' >= 0'),
                  ('C14', 'stream-id', 'self._local_id == %s' % NEXTID),
                  ('C01,C04', 'OPEN-service:command-then-one-OKAY-per-WRTE-then-one-CLSE', svc_wire('service', 'command')),
                  ('C01', 'stream-closed-by-device', 'D_cmd({0}, G.di[{0}] - 1) == CLSE'.format(NEXTID)),
                  RELEASED, MONO],
         raises=exc_all([RELEASED, MONO]),
         doc='b"".join of the payloads; decode applied once to the whole join with errors=backslashreplace, so it never raises')

contract('AdbDevice._streaming_service',
         real=dev('_streaming_service'),
         params={'self': 'obj:AdbDevice', 'service': 'bytes', 'command': 'bytes', 'transport_timeout_s': 'opt[real]', 'read_timeout_s': 'real',
                 'decode': 'bool'},
         variants=[{'decode': 'lit:True'}, {'decode': 'lit:False'}],
         gen={'elem': 'ite(decode, dec_bsr(D_data({0}, old(G.di)[{0}] + 1 + _i)), D_data({0}, old(G.di)[{0}] + 1 + _i))'.format(NEXTID)},
         props=['C01', 'C12'],
         requires=['self._local_id >= 0 and self._local_id < 2**32', 'G.rpos >= 0 and G.rpos <= len(G.dev)', NOLOCK],
         modifies=OPEN_MOD,
         on_yield=[('C01', 'raw-payloads-in-order', 'implies(not decode, same(value, D_data({0}, old(G.di)[{0}] + 1 + _yi)))'.format(NEXTID)),
                   ('C01', 'each-payload-decoded-on-its-own', 'implies(decode, same(value, dec_bsr(D_data({0}, old(G.di)[{0}] + 1 + _yi))))'.format(NEXTID))],
         ensures=[('C01', 'all-payloads-until-CLSE', 'G.di == store(old(G.di), {0}, old(G.di)[{0}] + _n + 2) and '
                                                      'D_cmd({0}, old(G.di)[{0}] + 1 + _n) == CLSE'.format(NEXTID)),
                  RELEASED, MONO],
         raises=exc_all([RELEASED, MONO]))

NOT_CONNECTED = [('C13', 'only-when-not-available', 'not old(self._available)'),
                 ('C13', 'not-a-byte-written', 'G.wire == old(G.wire) and G.nwrites == old(G.nwrites)'),
                 ('C13', 'no-local-file-created', 'G.files_opened == old(G.files_opened)'),
                 ('C13', 'nothing-read-no-stream-opened', 'G.rpos == old(G.rpos) and self._local_id == old(self._local_id) and G.di == old(G.di)'),
                 RELEASED, MONO]


def op_raises(extra=()):
    d = exc_all([RELEASED, MONO, ('C13', 'was-available', 'old(self._available)')])
    d['AdbConnectionError'] = list(NOT_CONNECTED)
    for k, v in extra:
        d[k] = v
    return d


OP_REQ = ['self._local_id >= 0 and self._local_id < 2**32', 'G.rpos >= 0 and G.rpos <= len(G.dev)', NOLOCK]
AVAIL = ('C13', 'was-available', 'old(self._available)')

for _name, _svc in (('shell', "b'shell'"), ('exec_out', "b'exec'")):
    contract('AdbDevice.' + _name,
             real=dev(_name),
             params={'self': 'obj:AdbDevice', 'command': 'str', 'transport_timeout_s': 'opt[real]', 'read_timeout_s': 'real', 'timeout_s': 'opt[real]',
                     'decode': 'bool'},
             returns={'by': 'decode', True: 'str', False: 'bytes'},
             props=['C01', 'C13', 'C12'],
             requires=OP_REQ,
             modifies=OPEN_MOD,
             ensures=[AVAIL, ('C14', 'stream-id', 'self._local_id == %s' % NEXTID),
                      ('C01', 'raw-result-is-the-exact-concatenation', 'implies(not decode, same(result, %s))' % SVC_BYTES),
                      ('C01', 'decoded-once-over-the-whole-concatenation', 'implies(decode, same(result, dec_bsr(%s)))' % SVC_BYTES),
                      ('C01,C04', 'OPEN-destination-then-one-OKAY-per-WRTE-then-one-CLSE', svc_wire(_svc, 'utf8(command)')),
                      RELEASED, MONO],
             raises=op_raises())

contract('AdbDevice.root',
         real=dev('root'),
         params={'self': 'obj:AdbDevice', 'transport_timeout_s': 'opt[real]', 'read_timeout_s': 'real', 'timeout_s': 'opt[real]'},
         props=['C01', 'C13', 'C12'],
         requires=OP_REQ, modifies=OPEN_MOD,
         ensures=[AVAIL, ('C01', 'stream-run-to-close', 'D_cmd({0}, G.di[{0}] - 1) == CLSE'.format(NEXTID)), RELEASED, MONO],
         raises=op_raises())

contract('AdbDevice.reboot',
         real=dev('reboot'),
         params={'self': 'obj:AdbDevice', 'fastboot': 'bool', 'transport_timeout_s': 'opt[real]', 'read_timeout_s': 'real', 'timeout_s': 'opt[real]'},
         props=['C13', 'C12'],
         requires=OP_REQ, modifies=OPEN_MOD,
         ensures=[AVAIL, RELEASED, MONO],
         raises=op_raises())

contract('AdbDevice.streaming_shell',
         real=dev('streaming_shell'),
         params={'self': 'obj:AdbDevice', 'command': 'str', 'transport_timeout_s': 'opt[real]', 'read_timeout_s': 'real', 'decode': 'bool'},
         variants=[{'decode': 'lit:True'}, {'decode': 'lit:False'}],
         gen={'elem': 'ite(decode, dec_bsr(D_data({0}, old(G.di)[{0}] + 1 + _i)), D_data({0}, old(G.di)[{0}] + 1 + _i))'.format(NEXTID)},
         props=['C01', 'C13', 'C12'],
         requires=OP_REQ, modifies=OPEN_MOD,
         on_yield=[('C01', 'raw-payloads-in-order', 'implies(not decode, same(value, D_data({0}, old(G.di)[{0}] + 1 + _yi)))'.format(NEXTID)),
                   ('C01', 'each-payload-decoded-on-its-own', 'implies(decode, same(value, dec_bsr(D_data({0}, old(G.di)[{0}] + 1 + _yi))))'.format(NEXTID))],
         ensures=[AVAIL, ('C01', 'all-payloads-until-CLSE', 'G.di == store(old(G.di), {0}, old(G.di)[{0}] + _n + 2) and '
                                                            'D_cmd({0}, old(G.di)[{0}] + 1 + _n) == CLSE'.format(NEXTID)),
                  RELEASED, MONO],
         raises=op_raises())
