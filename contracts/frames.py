"""Syntactic frame obligations (back end `ast-frame`) and number-theory lemmas that complement the contracts."""
import ast
from pyvc.dsl import framescan, lemma, contract, CONTRACTS
from contracts.device import dev

MODS = {'sync': ('adb_device', '_AdbIOManager', 'AdbDevice'), 'async': ('adb_device_async', '_AdbIOManagerAsync', 'AdbDeviceAsync')}


def _methods(sources, twin, which):
    modname, io, devcls = MODS[twin]
    m = sources.module(modname)
    cls = io if which == 'io' else devcls
    return m, {k.split('.', 1)[1]: v for k, v in m.funcs.items() if k.startswith(cls + '.')}


def _calls_of(fn, attr):
    out = []
    for n in ast.walk(fn):
        if isinstance(n, ast.Call) and isinstance(n.func, ast.Attribute) and n.func.attr == attr:
            out.append(n)
    return out


def analysed_methods(sources, twin, which):
    """Methods of the class whose bodies the engine looks at: those under contract, plus (transitively) the un-contracted helpers they call
    on `self`, which are executed in place."""
    m, ms = _methods(sources, twin, which)
    prefix = 'IOManager.' if which == 'io' else 'AdbDevice.'
    done = {n for n in ms if (prefix + n) in CONTRACTS and not CONTRACTS[prefix + n].trusted}
    work = list(done)
    while work:
        fn = ms[work.pop()]
        for c in ast.walk(fn):
            if isinstance(c, ast.Call) and isinstance(c.func, ast.Attribute) and isinstance(c.func.value, ast.Name) and c.func.value.id == 'self' \
                    and c.func.attr in ms and c.func.attr not in done:
                done.add(c.func.attr)
                work.append(c.func.attr)
    return done


def only_write_bytes_writes(sources, twin):
    """bulk_write is called nowhere in adb_device*.py but in _write_bytes_to_device; that is called only by _send;
    _send only by send and connect  =>  the complete outgoing byte stream is a concatenation of frames (C02)."""
    problems = []
    m, io = _methods(sources, twin, 'io')
    _, devm = _methods(sources, twin, 'dev')
    allowed = {'bulk_write': {'_write_bytes_to_device'}, '_write_bytes_to_device': {'_send'}, '_send': {'send', 'connect'}}
    reached = {'io': analysed_methods(sources, twin, 'io'), 'dev': analysed_methods(sources, twin, 'dev')}
    for attr, ok in allowed.items():
        for scope, methods in (('io', io), ('dev', devm)):
            for name, fn in methods.items():
                if name in reached[scope]:
                    continue          # under contract (its frame and posts decide) or executed in place inside a function under contract
                for c in _calls_of(fn, attr):
                    problems.append('%s called in %s.%s (line %d), a method the contracts do not reach' % (attr, scope, name, c.lineno))
    for attr in allowed:
        if attr != 'bulk_write' and attr not in io:
            problems.append('%s no longer exists' % attr)
    return problems


framescan('C02/only-_write_bytes_to_device-writes-to-the-transport', ['C02', 'C15'], only_write_bytes_writes,
          'bulk_write only in _write_bytes_to_device <- _send <- {send, connect}', side_condition=True)


def available_written_only_by(sources, twin):
    """_available is assigned only in __init__ (False), close (False) and connect; every public method has a C13 contract."""
    problems = []
    m, devm = _methods(sources, twin, 'dev')
    for name, fn in devm.items():
        for n in ast.walk(fn):
            if isinstance(n, ast.Attribute) and isinstance(n.ctx, ast.Store) and n.attr == '_available' and name not in ('__init__', 'close', 'connect') \
                    and name not in analysed_methods(sources, twin, 'dev'):
                problems.append('_available assigned in %s (line %d), a method the contracts do not reach' % (name, n.lineno))
    for name, fn in devm.items():
        if name.startswith('_') or any(isinstance(d, ast.Name) and d.id == 'property' for d in fn.decorator_list):
            continue
        c = CONTRACTS.get('AdbDevice.' + name)
        if c is None or 'C13' not in c.props:
            problems.append('UNDECIDED: public method %s has no C13 contract (added after the contracts were written)' % name)
    return problems


framescan('C13/_available-written-only-in-init-close-connect+every-public-method-under-contract', ['C13'], available_written_only_by,
          '_available is written only by __init__, close, connect; no public method without a guard contract', side_condition=True)


# (a former scan "locks only via with" was dropped: acquire()/release() are modelled by the engine, so a manual acquire is decided by the
#  `locks-released` postconditions on every exit instead of being refused syntactically)


def local_id_touched_only_in_open(sources, twin):
    problems = []
    m, devm = _methods(sources, twin, 'dev')
    seen = analysed_methods(sources, twin, 'dev')
    for name, fn in devm.items():
        for n in ast.walk(fn):
            if isinstance(n, ast.Attribute) and n.attr == '_local_id' and name not in ('__init__', '_open') and name not in seen:
                problems.append('_local_id used in %s (line %d), a method the contracts do not reach' % (name, n.lineno))
    return problems


framescan('C14/_local_id-touched-only-by-__init__-and-_open', ['C14'], local_id_touched_only_in_open,
          'the stream id counter is read and written only in __init__ and _open (where the engine checks the lock is held)', side_condition=True)

def exception_payload_is_kept_verbatim(classes):
    """Side condition of A-MSG (the engine records which exception class is raised and its designated payload, and does
    not execute the exception's constructor): every one of `classes` raised in adb_device*.py, adb_message.py and
    hidden_helpers.py inherits its construction and rendering from `Exception` unchanged -- or, where the class has
    methods of its own (DeviceAuthError formats printf-style), every raise site passes a single literal without '%'."""
    special = ('__init__', '__new__', '__str__', '__repr__', '__reduce__', '__getattribute__', '__setattr__', 'args', 'with_traceback')

    def own_members(exc, cname, seen=()):
        cls = exc.classes.get(cname)
        if cls is None:
            return ['<unknown class %s>' % cname]
        if cname in seen:
            return []
        out = []
        for st in cls.body:
            if isinstance(st, (ast.FunctionDef, ast.AsyncFunctionDef)) and st.name in special:
                out.append('%s.%s' % (cname, st.name))
            elif isinstance(st, ast.Assign) and any(isinstance(t, ast.Name) and t.id in special for t in st.targets):
                out.append('%s.%s' % (cname, st.targets[0].id))
        if cls.decorator_list or cls.keywords:
            out.append('%s is decorated / has a metaclass' % cname)
        for b in cls.bases:
            bname = b.id if isinstance(b, ast.Name) else None
            if bname is None:
                out.append('%s has a computed base' % cname)
            elif bname in exc.classes:
                out.extend(own_members(exc, bname, seen + (cname,)))
            elif bname not in ('Exception', 'IOError', 'OSError', 'ValueError', 'RuntimeError'):
                out.append('%s derives from %s' % (cname, bname))
        return out

    def scan(sources, twin):
        problems = []
        exc = sources.module('exceptions')
        for short in (MODS[twin][0], 'adb_message', 'hidden_helpers'):
            m = sources.module(short)
            for n in ast.walk(m.tree):
                if not (isinstance(n, ast.Raise) and isinstance(n.exc, ast.Call)):
                    continue
                f = n.exc.func
                if not (isinstance(f, ast.Attribute) and isinstance(f.value, ast.Name) and f.value.id == 'exceptions' and f.attr in classes):
                    continue
                own = own_members(exc, f.attr)
                if not own:
                    continue
                literal_only = (len(n.exc.args) == 1 and not n.exc.keywords and isinstance(n.exc.args[0], ast.Constant)
                                and isinstance(n.exc.args[0].value, str) and '%' not in n.exc.args[0].value)
                if not literal_only:
                    problems.append('%s.py:%d raises exceptions.%s with a computed payload, but the class overrides %s'
                                    % (short, n.lineno, f.attr, ', '.join(own)))
        return problems
    return scan


for _p, _cl in (('C10', ('AdbCommandFailureException', 'PushFailedError', 'InvalidResponseError')), ('C13', ('AdbConnectionError', 'DevicePathInvalidError')),
                 ('C05', ('DeviceAuthError', 'InvalidResponseError')), ('C03', ('InvalidChecksumError', 'InvalidCommandError')), ('C11', ('AdbTimeoutError',))):
    framescan('A-MSG/%s-keep-their-payload-verbatim' % '+'.join(_cl), [_p], exception_payload_is_kept_verbatim(_cl),
              'side condition of A-MSG: no constructor / __str__ override on an exception class this property names when it is raised with a computed payload',
              side_condition=True)

# ---------------------------------------------------------------------------------------------------------------------
# C14: the id sequence

M = 2 ** 32 - 1


def _nextid(z3, x):
    return z3.If(x + 1 == 2 ** 32, 1, x + 1)


def _range(z3, SF, V):
    x = z3.Int('x')
    return [x >= 0, x <= M], z3.And(_nextid(z3, x) >= 1, _nextid(z3, x) <= M)


def _cycle_base(z3, SF, V):
    x = z3.Int('x')
    return [x >= 1, x <= M], ((x - 1 + 0) % M) + 1 == x


def _cycle_step(z3, SF, V):
    x, j = z3.Ints('x j')
    f = lambda k: ((x - 1 + k) % M) + 1      # noqa
    return [x >= 1, x <= M, j >= 0], _nextid(z3, f(j)) == f(j + 1)


def _from_zero(z3, SF, V):
    return [], _nextid(z3, z3.IntVal(0)) == 1


def _distinct(z3, SF, V):
    x, i, j = z3.Ints('x i j')
    f = lambda k: ((x - 1 + k) % M) + 1      # noqa
    return [x >= 1, x <= M, i >= 0, j > i, j - i < M], f(i) != f(j)


lemma('C14/nextid-stays-in-1..2^32-1', ['C14'], _range, 'nextid(x) in [1, 2^32-1] for every counter value 0 <= x <= 2^32-1')
lemma('C14/nextid-cycle-base', ['C14'], _cycle_base, 'nextid^0(x) == ((x-1+0) mod (2^32-1)) + 1')
lemma('C14/nextid-cycle-step', ['C14'], _cycle_step, 'nextid(((x-1+j) mod M) + 1) == ((x-1+j+1) mod M) + 1: closed form of j allocations, across the wrap 2^32-1 -> 1')
lemma('C14/first-id-is-1', ['C14'], _from_zero, 'the first allocation after construction (counter 0) is 1')
lemma('C14/fewer-than-2^32-1-consecutive-ids-are-pairwise-distinct', ['C14'], _distinct,
      'any two of fewer than 2^32-1 consecutive allocations differ (uniqueness among live streams, incl. wrap-around)')

contract('AdbDevice.available',
         real=dev('available'),
         params={'self': 'obj:AdbDevice'}, returns='bool', props=['C13'], pure=True,
         ensures=[('C13', 'reports-the-flag', 'result == self._available')])
