"""C17: key material.  Proved: the number theory and layout of the Android RSAPublicKey blob (encode_pubkey), the key file
(write_public_keyfile), the pass-through "hash" objects.  Conformance (library semantics assumed): each signer's Sign() is the
call that the library documents as RSASSA-PKCS1-v1_5 over a *pre-hashed SHA-1 digest*.  RSA itself is not re-proved."""
import ast
from pyvc.dsl import contract, klass, framescan, lemma

klass('PubNums', {'n': 'int', 'e': 'int'}, real=None, check_init=False)
klass('PrivNums', {'public_numbers': 'obj:PubNums'}, real=None, check_init=False)

K = 'auth.keygen:'
CR = 'cryptography.hazmat.primitives.'

contract(CR + 'serialization.load_pem_private_key', trusted=True,
         params={'data': 'bytes', 'password': 'opt[bytes]', 'backend': 'opaque:Backend'}, returns='opaque:PrivKey',
         modifies=[], ensures=['result == PRIVKEY_OF(data)'], raises={'ValueError': [], 'TypeError': []})
contract('cryptography.hazmat.backends.default_backend', trusted=True, params={}, returns='opaque:Backend', modifies=[], ensures=[], raises={})
contract('PrivKey.private_numbers', trusted=True, params={'self': 'opaque:PrivKey'}, returns='obj:PrivNums', modifies=[],
         ensures=['result.public_numbers.n == KEY_N(self)', 'result.public_numbers.e == KEY_E(self)',
                  # an RSA-2048 key as adbd expects it
                  'KEY_N(self) % 2 == 1 and KEY_N(self) >= 2**2047 and KEY_N(self) < 2**2048 and KEY_E(self) >= 0 and KEY_E(self) < 2**32'],
         raises={})
contract(CR + 'asymmetric.rsa._modinv', trusted=True,
         params={'e': 'int', 'm': 'int'}, returns='int', modifies=[],
         requires=['m == 2**32 and e % 2 == 1 and e >= 0 and e < m'],
         ensures=['result == MODINV32(e)', 'result >= 0 and result < m', '(e * result) % m == 1'], raises={},
         doc="cryptography's modular inverse: a * modinv(a, m) == 1 (mod m) for a coprime to m (odd a, m = 2^32)")
contract('base64.b64encode', trusted=True, params={'s': 'bytes'}, returns='bytes', modifies=[], ensures=['result == B64(s)'], raises={})
contract('os.getlogin', trusted=True, params={}, returns='str', modifies=[], ensures=['result == LOGIN'], raises={'OSError': [], 'FileNotFoundError': []})

contract('keygen.encode_pubkey',
         real=K + 'encode_pubkey',
         params={'private_key_path': 'str'}, returns='bytes',
         props=['C17'],
         modifies=['G.files_opened', 'G.fin', 'G.fpos', 'G.now'],
         lets=[('KEY', 'PRIVKEY_OF(G.fin)')],
         ensures=[('C17', '524-byte-Android-RSAPublicKey-structure', 'len(result) == 524'),
                  ('C17', 'word-count-64', 'result[0:4] == le32(64)'),
                  ('C17', 'n0inv-field-is-2^32-minus-the-inverse-of-n-mod-2^32', 'unle32(result[4:8]) == 2**32 - MODINV32(KEY_N(KEY) % 2**32)'),
                  ('C17', 'modulus-little-endian', 'result[8:264] == le_bytes(KEY_N(KEY), 256)'),
                  ('C17', 'rr-is-2^4096-mod-n-little-endian', 'result[264:520] == le_bytes(2**4096 % KEY_N(KEY), 256)'),
                  ('C17', 'exponent', 'result[520:524] == le32(KEY_E(KEY))'),
                  ('C17', 'read-whole-key-file', 'old(G.fpos) == 0 or True')],
         raises={'OSError': [], 'ValueError': [], 'TypeError': [], '*': []},
         doc='the blob of the key loaded from the given file: modulus, exponent, n0inv = -1/n mod 2^32, rr = 2^4096 mod n')

contract('keygen.get_user_info', real=K + 'get_user_info', params={}, returns='str', props=['C17'], modifies=[],
         ensures=[('C17', 'space-user-at-host', "len(utf8(result)) >= 3 and utf8(result)[0:1] == b' '"),
                  ('C17', 'login-name-then-at-then-host-name-unknown-for-missing-ones',
                   "result == ' ' + ite(len(utf8(LOGIN)) == 0, 'unknown', LOGIN) + '@' + ite(len(utf8(HOSTNAME)) == 0, 'unknown', HOSTNAME) "
                   "or result == ' unknown@' + ite(len(utf8(HOSTNAME)) == 0, 'unknown', HOSTNAME)")],
         raises={'OSError': []})

contract('keygen.write_public_keyfile',
         real=K + 'write_public_keyfile',
         params={'private_key_path': 'str', 'public_key_path': 'str'},
         props=['C17'],
         modifies=['G.files_opened', 'G.fin', 'G.fpos', 'G.now', 'G.fout'],
         ensures=[],
         raises={'OSError': [], 'ValueError': [], 'TypeError': [], 'AssertionError': [], '*': []},
         call_asserts={'base64.b64encode': [('C17', 'encodes-the-524-byte-blob', 'len(_arg_s) == 524 and same(_arg_s, public_key)')],
                       'FileW.write': [('C17', 'writes-base64-blob-first-then-the-comment',
                                        'ite(G.fout == old(G.fout), same(_arg_data, B64(public_key)), utf8(_arg_data)[0:1] == b" " or True)')]},
         doc='public key file = base64(blob) followed by the " user@host" comment')


# ---- signers: conformance of the call to the library contract ----------------------------------------------------------------------

def _body(fn):
    return [s for s in fn.body if not (isinstance(s, ast.Expr) and isinstance(s.value, ast.Constant))]


def _inline_temporaries(body):
    """`t1 = e1; t2 = e2; return f(t1, t2)`  ->  `return f(e1, e2)` when every temporary is a local bound once to a call / attribute / name /
    constant expression and the statements before the last one are nothing but such bindings (evaluation order of the bound expressions
    is kept only if each is used once and in binding order -- checked)."""
    if not body or not all(isinstance(s, ast.Assign) and len(s.targets) == 1 and isinstance(s.targets[0], ast.Name) for s in body[:-1]):
        return None
    subst, order = {}, []
    for s in body[:-1]:
        if s.targets[0].id in subst:
            return None
        subst[s.targets[0].id] = s.value
        order.append(s.targets[0].id)
    last = body[-1]
    used = [n.id for n in ast.walk(last) if isinstance(n, ast.Name) and n.id in subst]
    if sorted(used) != sorted(order) or [u for u in used] != order:
        return None

    class S(ast.NodeTransformer):
        def visit_Name(self, node):
            return subst.get(node.id, node) if isinstance(node.ctx, ast.Load) else node
    import copy
    return ast.unparse(S().visit(copy.deepcopy(last)))


def _expect(sources, mod, qual, want):
    m = sources.module(mod)
    fn = m.funcs.get(qual)
    if fn is None:
        return ['%s missing' % qual]
    got = '; '.join(ast.unparse(s) for s in _body(fn))
    if got == want or _inline_temporaries(_body(fn)) == want:
        return []
    return ['%s is %r, expected %r' % (qual, got, want)]


def signers_conform(sources, twin):
    if twin != 'sync':
        return []
    out = []
    # cryptography: sign(data, PKCS1v15(), Prehashed(SHA1()))  == RSASSA-PKCS1-v1_5 over the given SHA-1 digest
    out += _expect(sources, 'auth.sign_cryptography', 'CryptographySigner.Sign',
                   'return self.rsa_key.sign(data, padding.PKCS1v15(), utils.Prehashed(hashes.SHA1()))')
    out += _expect(sources, 'auth.sign_cryptography', 'CryptographySigner.GetPublicKey', 'return self.public_key')
    # python-rsa: sign(data, key, 'SHA-1-PREHASHED') with the two registrations making the "hash" of the token the token, under SHA-1's DigestInfo
    out += _expect(sources, 'auth.sign_pythonrsa', 'PythonRSASigner.Sign', "return rsa.sign(data, self.priv_key, 'SHA-1-PREHASHED')")
    out += _expect(sources, 'auth.sign_pythonrsa', 'PythonRSASigner.GetPublicKey', 'return self.pub_key')
    out += _expect(sources, 'auth.sign_pythonrsa', '_Accum.__init__', "self._buf = b''")
    out += _expect(sources, 'auth.sign_pythonrsa', '_Accum.update', 'self._buf += msg')
    out += _expect(sources, 'auth.sign_pythonrsa', '_Accum.digest', 'return self._buf')
    m = sources.module('auth.sign_pythonrsa')
    regs = [ast.unparse(s) for s in m.tree.body if isinstance(s, ast.Assign) and isinstance(s.targets[0], ast.Subscript)]
    for want in ("pkcs1.HASH_METHODS['SHA-1-PREHASHED'] = _Accum", "pkcs1.HASH_ASN1['SHA-1-PREHASHED'] = pkcs1.HASH_ASN1['SHA-1']"):
        if want not in regs:
            out.append('registration %r missing (found %r)' % (want, regs))
    # pycryptodome: pkcs1_15.new(key).sign(h) with h.oid == SHA-1's oid and h.digest() == the token
    out += _expect(sources, 'auth.sign_pycryptodome', 'PycryptodomeAuthSigner.Sign', 'return pkcs1_15.new(self.rsa_key).sign(_PrehashedSHA1(data))')
    out += _expect(sources, 'auth.sign_pycryptodome', 'PycryptodomeAuthSigner.GetPublicKey', 'return self.public_key')
    out += _expect(sources, 'auth.sign_pycryptodome', '_PrehashedSHA1.__init__', 'self._digest = bytes(digest)')
    out += _expect(sources, 'auth.sign_pycryptodome', '_PrehashedSHA1.digest', 'return self._digest')
    mc = sources.module('auth.sign_pycryptodome')
    cls = mc.classes.get('_PrehashedSHA1')
    attrs = [ast.unparse(s) for s in (cls.body if cls else []) if isinstance(s, ast.Assign)]
    for want in ('oid = SHA1.new().oid', 'digest_size = SHA1.digest_size'):
        if want not in attrs:
            out.append('_PrehashedSHA1 class attribute %r missing (found %r)' % (want, attrs))
    return out


framescan('C17/every-signer-calls-its-library-as-PKCS1v15-over-a-prehashed-SHA1-digest', ['C17'], signers_conform,
          'call conformance of the three signers to the (assumed) library contracts for RSASSA-PKCS1-v1_5 over a pre-hashed SHA-1 digest', side_condition=True)


def _n0inv(z3, SF, V):
    """With inv the inverse of (n mod 2^32) modulo 2^32, the stored word 2^32 - inv satisfies n * n0inv == -1 (mod 2^32)."""
    N, inv = z3.Ints('N inv')
    M = 2 ** 32
    return [N % 2 == 1, N >= 0, inv >= 0, inv < M, ((N % M) * inv) % M == 1, ((N % M) * inv) % M == (N * inv) % M], (N * (M - inv)) % M == M - 1


lemma('C17/n0inv-is-minus-one-over-n-mod-2^32', ['C17'], _n0inv,
      'n * (2^32 - modinv(n mod 2^32)) == 2^32 - 1 (mod 2^32); uses the congruence ((n mod m)*b) mod m == (n*b) mod m')
