"""Contracts for hidden_helpers._AdbPacketStore and _AdbTransactionInfo.args_match (C19; used by C06).

Abstract view of the store (spec functions defined in contracts/hooks.py):
    present(store, a0, a1)    the pair (a0 = remote id, a1 = local id) has an entry
    view(store, a0, a1)       its queue as a sequence of packets, head first (empty when not present)
    pending(store, a0, a1)    present and view non-empty
Frames are stated over the WHOLE view (`others_unchanged`: every other key keeps presence and content).
"""
from pyvc.dsl import contract

S = 'hidden_helpers:_AdbPacketStore.'

contract('Store.__init__', real=S + '__init__', inline=True,
         params={'self': 'obj:Store'}, props=['C19'], modifies=['self._dict'],
         ensures=[('C19', 'starts-empty', 'none_present(self)')])

contract('Store.put', real=S + 'put',
         params={'self': 'obj:Store', 'arg0': 'int', 'arg1': 'int', 'cmd': 'bytes', 'data': 'bytes'},
         props=['C19', 'C06', 'C01'],
         modifies=['self._dict'],
         ensures=[('C19,C06,C01', 'append-at-tail',
                   'implies(cmd != CLSE or present(old(self), arg0, arg1), '
                   'present(self, arg0, arg1) and qeq(view(self, arg0, arg1), qcat(view(old(self), arg0, arg1), pkt(cmd, data))))'),
                  ('C19,C06,C01', 'other-keys-untouched', 'others_unchanged(old(self), self, arg0, arg1)'),
                  # C06 (routing invariant): a packet parked for a stream must not be lost.  Left unspecified under C19.
                  ('C06', 'close-for-absent-key-is-kept',
                   'implies(cmd == CLSE and not present(old(self), arg0, arg1), '
                   'present(self, arg0, arg1) and qeq(view(self, arg0, arg1), pkt(cmd, data)))'),
                  ('C19', 'close-for-absent-key-unspecified-but-framed',
                   'implies(cmd == CLSE and not present(old(self), arg0, arg1), '
                   'not present(self, arg0, arg1) or qeq(view(self, arg0, arg1), pkt(cmd, data)))')],
         doc='FIFO append under the arrival pair; every other pair untouched')

contract('Store.find', real=S + 'find',
         params={'self': 'obj:Store', 'arg0': 'opt[int]', 'arg1': 'opt[int]'},
         returns='opt[tuple[int,int]]',
         props=['C19', 'C06', 'C01'], pure=True,
         ensures=[('C19,C06,C01', 'none-iff-no-match', 'iff(isnone(result), not exists_pending(self, arg0, arg1))'),
                  ('C19,C06,C01', 'result-matches-and-pending',
                   'implies(not isnone(result), matches_pat(val(result)[0], val(result)[1], arg0, arg1) '
                   'and pending(self, val(result)[0], val(result)[1]))')],
         doc='wildcard lookup (None = unknown id): a pair that currently has a pending packet whenever one matching pair exists')

contract('Store.find_allow_zeros', real=S + 'find_allow_zeros',
         params={'self': 'obj:Store', 'arg0': 'opt[int]', 'arg1': 'opt[int]'},
         returns='opt[tuple[int,int]]',
         props=['C19', 'C06', 'C01'], pure=True,
         ensures=[('C19,C06,C01', 'none-iff-no-match-incl-zero-fallbacks',
                   'iff(isnone(result), not (exists_pending(self, arg0, arg1) or exists_pending(self, arg0, 0) '
                   'or exists_pending(self, 0, arg1) or exists_pending(self, 0, 0)))'),
                  ('C19,C06,C01', 'result-matches-with-zero-fallback-and-pending',
                   'implies(not isnone(result), pending(self, val(result)[0], val(result)[1]) and '
                   '(matches_pat(val(result)[0], val(result)[1], arg0, arg1) or matches_pat(val(result)[0], val(result)[1], arg0, 0) '
                   'or matches_pat(val(result)[0], val(result)[1], 0, arg1) or matches_pat(val(result)[0], val(result)[1], 0, 0)))')],
         doc='the same with the legacy zero-id fallbacks tried in the documented order')

contract('Store.get', real=S + 'get',
         params={'self': 'obj:Store', 'arg0': 'opt[int]', 'arg1': 'opt[int]'},
         returns='tuple[bytes,int,int,bytes]',
         props=['C19', 'C06', 'C01'],
         requires=['exists_pending(self, arg0, arg1)'],
         modifies=['self._dict'],
         ensures=[('C19,C06,C01', 'resolved-key-matches', 'matches_pat(result[1], result[2], arg0, arg1) and pending(old(self), result[1], result[2])'),
                  ('C19,C06,C01', 'head-of-queue', 'result[0] == qhead_cmd(view(old(self), result[1], result[2])) and '
                                               'result[3] == qhead_data(view(old(self), result[1], result[2]))'),
                  ('C19,C06,C01', 'pop-or-forget',
                   'ite(result[0] == CLSE, not present(self, result[1], result[2]), '
                   'present(self, result[1], result[2]) and qeq(view(self, result[1], result[2]), qtail(view(old(self), result[1], result[2]))))'),
                  ('C19,C06,C01', 'other-keys-untouched', 'others_unchanged(old(self), self, result[1], result[2])')],
         doc='pops the head of the resolved pair; retrieving a CLOSE forgets the stream')

contract('Store.clear', real=S + 'clear',
         params={'self': 'obj:Store', 'arg0': 'int', 'arg1': 'int'},
         props=['C19', 'C06', 'C01'], modifies=['self._dict'],
         ensures=[('C19,C06,C01', 'forgets-the-pair', 'not present(self, arg0, arg1)'),
                  ('C19,C06,C01', 'other-keys-untouched', 'others_unchanged(old(self), self, arg0, arg1)')])

contract('Store.clear_all', real=S + 'clear_all',
         params={'self': 'obj:Store'},
         props=['C19', 'C06', 'C12'], modifies=['self._dict'],
         ensures=[('C19,C06,C12', 'forgets-everything', 'none_present(self)')])

contract('Store.__len__', real=S + '__len__',
         params={'self': 'obj:Store'}, returns='int', props=['C19'], pure=True,
         ensures=[('C19', 'number-of-pending-pairs', 'count_is(result, self)')],
         doc='the generator sums `not q.empty()` over exactly the present pairs: its characteristic predicate equals pending()')

contract('Store.__contains__', real=S + '__contains__',
         params={'self': 'obj:Store', 'value': 'tuple[opt[int],opt[int]]'}, returns='bool', props=['C19'], pure=True,
         ensures=[('C19', 'contains-iff-find', 'result == exists_pending(self, value[0], value[1])')])

MATCH = ('(arg1 == val(self.local_id) or (allow_zeros and arg1 == 0)) and '
         '(isnone(self.remote_id) or arg0 == val(self.remote_id) or (allow_zeros and arg0 == 0))')

contract('AdbInfo.args_match', real='hidden_helpers:_AdbTransactionInfo.args_match',
         params={'self': 'obj:AdbInfo', 'arg0': 'int', 'arg1': 'int', 'allow_zeros': 'bool'},
         returns='bool', props=['C19', 'C06', 'C01'], pure=True,
         requires=['not isnone(self.local_id)'],
         ensures=[('C19,C06,C01', 'stream-matching-predicate', 'result == (%s)' % MATCH)],
         doc='the stream-matching predicate as the property states it (own local id, announced remote id or not yet known, zero fallbacks)')
