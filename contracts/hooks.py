"""World hooks: semantics of the library data structures the packet store is built from (dict of dict of Queue),
and the spec functions the store contracts use.  Installed per twin.

Representation: `_dict : arg1 -> (arg0 -> Queue)` is a VDict2 = (has1, has, q) of z3 arrays:
    has1[k1]            outer key present
    has[k1][k0]         inner key present (meaningful when has1[k1])
    q[k1][k0]           the queue content, a Seq(Pkt), FIFO: head at index 0
Library axioms used (trusted base): dict membership / get / set / del / truthiness; iteration of .items()/.values()
visits every present item (order not modelled: `next(genexp, None)` is an existential choice); asyncio.Queue is an
unbounded FIFO with empty / put_nowait / get_nowait.
"""
import ast
import z3

from pyvc.values import *      # noqa
from pyvc.values import Unsupported
from pyvc.symexec import RaiseSig
from pyvc import world as W
from pyvc.world import Pkt, PktSeq, VCtx, SPEC_FUNCS, BUILTINS, METHODS

BoolArr = z3.ArraySort(IntS, BoolS)
QArr = z3.ArraySort(IntS, PktSeq)


class Ref(V):
    """An l-value inside the store's dict: owner object + field, and the keys applied so far."""
    kind = 'ref'

    def __init__(self, owner, field, k1=None, k0=None):
        self.owner, self.field, self.k1, self.k0 = owner, field, k1, k0

    @property
    def d(self):
        return self.owner.fields[self.field]


def present(d, k0, k1):
    return z3.And(z3.Select(d.has1, k1), z3.Select(z3.Select(d.has, k1), k0))


def view(d, k0, k1):
    return z3.If(present(d, k0, k1), z3.Select(z3.Select(d.q, k1), k0), z3.Empty(PktSeq))


def empty_dict2():
    return VDict2(z3.K(IntS, z3.BoolVal(False)), z3.K(IntS, z3.K(IntS, z3.BoolVal(False))), z3.K(IntS, z3.K(IntS, z3.Empty(PktSeq))))


def key_int(ex, v, what):
    if isinstance(v, VOpt):
        v = ex.nonnull(v, what)
    if isinstance(v, VNone):
        # None is hashable: `None in d` is simply False for a dict with int keys; `d[None]` is a KeyError
        return None
    if not isinstance(v, (VInt, VBool)):
        raise Unsupported('store key %r' % (v,))
    return to_int(v)


def install(world):
    world.use_store = True

    def object_field_ref(ex, node):
        """`self._dict` evaluated as an l-value reference when the field holds a dict2."""
        if isinstance(node, ast.Attribute):
            base = ex.eval(node.value)
            if isinstance(base, VObj) and isinstance(base.fields.get(node.attr), VDict2):
                return Ref(base, node.attr)
        return None

    def subscript_load(w, ex, base, node):
        if isinstance(base, VDict2):
            ref = object_field_ref(ex, node.value)
            if ref is None:
                raise Unsupported('dict2 value without a home')
            w.use('dict')
            k1 = key_int(ex, ex.eval(node.slice), 'dict key')
            if k1 is None or not ex.branch(z3.Select(base.has1, k1)):
                raise RaiseSig(VExc('KeyError'))
            return Ref(ref.owner, ref.field, k1)
        if isinstance(base, Ref) and base.k1 is not None and base.k0 is None:
            w.use('dict')
            k0 = key_int(ex, ex.eval(node.slice), 'dict key')
            d = base.d
            if k0 is None or not ex.branch(z3.Select(z3.Select(d.has, base.k1), k0)):
                raise RaiseSig(VExc('KeyError'))
            return Ref(base.owner, base.field, base.k1, k0)
        return NotImplemented

    def subscript_store(w, ex, base, target, v):
        w.use('dict')
        if isinstance(base, VDict2):
            ref = object_field_ref(ex, target.value)
            k1 = key_int(ex, ex.eval(target.slice), 'dict key')
            if not isinstance(v, DictLit) or len(v.items) != 1:
                raise Unsupported('store of %r into the outer dict' % (v,))
            (k0v, qv), = v.items
            k0 = key_int(ex, k0v, 'dict key')
            if not isinstance(qv, VQueue):
                raise Unsupported('inner dict value %r' % (qv,))
            d = base
            inner_has = z3.Store(z3.K(IntS, z3.BoolVal(False)), k0, z3.BoolVal(True))
            inner_q = z3.Store(z3.Select(d.q, k1), k0, qv.items)
            ref.owner.fields[ref.field] = VDict2(z3.Store(d.has1, k1, z3.BoolVal(True)), z3.Store(d.has, k1, inner_has), z3.Store(d.q, k1, inner_q))
            return None
        if isinstance(base, Ref) and base.k1 is not None and base.k0 is None:
            k0 = key_int(ex, ex.eval(target.slice), 'dict key')
            if not isinstance(v, VQueue):
                raise Unsupported('inner dict value %r' % (v,))
            d = base.d
            base.owner.fields[base.field] = VDict2(d.has1, z3.Store(d.has, base.k1, z3.Store(z3.Select(d.has, base.k1), k0, z3.BoolVal(True))),
                                                   z3.Store(d.q, base.k1, z3.Store(z3.Select(d.q, base.k1), k0, v.items)))
            return None
        return NotImplemented

    def subscript_delete(w, ex, base, target):
        w.use('dict')
        if isinstance(base, VDict2):
            ref = object_field_ref(ex, target.value)
            k1 = key_int(ex, ex.eval(target.slice), 'dict key')
            if k1 is None or not ex.branch(z3.Select(base.has1, k1)):
                raise RaiseSig(VExc('KeyError'))
            ref.owner.fields[ref.field] = VDict2(z3.Store(base.has1, k1, z3.BoolVal(False)), base.has, base.q)
            return None
        if isinstance(base, Ref) and base.k1 is not None and base.k0 is None:
            k0 = key_int(ex, ex.eval(target.slice), 'dict key')
            d = base.d
            if k0 is None or not ex.branch(z3.Select(z3.Select(d.has, base.k1), k0)):
                raise RaiseSig(VExc('KeyError'))
            base.owner.fields[base.field] = VDict2(d.has1, z3.Store(d.has, base.k1, z3.Store(z3.Select(d.has, base.k1), k0, z3.BoolVal(False))), d.q)
            return None
        return NotImplemented

    def contains(w, ex, coll, x):
        w.use('dict')
        if isinstance(coll, VDict2):
            k = key_int(ex, x, 'dict key')
            return z3.BoolVal(False) if k is None else z3.Select(coll.has1, k)
        if isinstance(coll, Ref) and coll.k1 is not None and coll.k0 is None:
            k = key_int(ex, x, 'dict key')
            return z3.BoolVal(False) if k is None else z3.Select(z3.Select(coll.d.has, coll.k1), k)
        return NotImplemented

    world.hooks['subscript_load'] = subscript_load
    world.hooks['subscript_store'] = subscript_store
    world.hooks['subscript_delete'] = subscript_delete
    world.hooks['contains'] = contains
    world.hooks['genexp_reduce'] = genexp_reduce


class DictLit(V):
    kind = 'dictlit'

    def __init__(self, items):
        self.items = items


# --- truthiness of refs (an inner dict) -------------------------------------------------------------
_base_truth = truth


def _truth(v):
    if isinstance(v, Ref):
        if v.k1 is not None and v.k0 is None:
            k = z3.Int('__k0')
            return z3.Exists([k], z3.Select(z3.Select(v.d.has, v.k1), k))
        if v.k0 is not None:
            return z3.BoolVal(True)
    if isinstance(v, DictLit):
        return z3.BoolVal(len(v.items) > 0)
    return _base_truth(v)


import pyvc.values as _values     # noqa: E402
import pyvc.symexec as _symexec   # noqa: E402
import pyvc.world as _world       # noqa: E402
_values.truth = _truth
_symexec.truth = _truth
_world.truth = _truth


# --- Queue methods on references --------------------------------------------------------------------------

def _items(ref):
    return z3.Select(z3.Select(ref.d.q, ref.k1), ref.k0)


def _set_items(ref, items):
    d = ref.d
    ref.owner.fields[ref.field] = VDict2(d.has1, d.has, z3.Store(d.q, ref.k1, z3.Store(z3.Select(d.q, ref.k1), ref.k0, items)))


def m_q_empty(w, ex, base, args, kwargs, node):
    w.use('Queue')
    if isinstance(base, VQueue):
        return VBool(z3.Length(base.items) == 0)
    return VBool(z3.Length(_items(base)) == 0)


def m_q_put(w, ex, base, args, kwargs, node):
    w.use('Queue')
    (item,) = args
    if not (isinstance(item, VTuple) and len(item.items) == 2 and all(isinstance(x, VBytes) for x in item.items)):
        raise Unsupported('queue item %r' % (item,))
    p = Pkt.pkt(item.items[0].term, item.items[1].term)
    _set_items(base, z3.Concat(_items(base), z3.Unit(p)))
    return NONE


def m_q_get(w, ex, base, args, kwargs, node):
    w.use('Queue')
    items = _items(base)
    if not ex.branch(z3.Length(items) > 0):
        raise RaiseSig(VExc('asyncio.QueueEmpty'))
    head = items[0]
    _set_items(base, z3.SubSeq(items, 1, z3.Length(items) - 1))
    return VTuple([VBytes(Pkt.cmd(head), False), VBytes(Pkt.data(head), False)])


METHODS[('Ref', 'empty')] = m_q_empty
METHODS[('Ref', 'put_nowait')] = m_q_put
METHODS[('Ref', 'get_nowait')] = m_q_get
METHODS[('VQueue', 'empty')] = m_q_empty


def m_items(w, ex, base, args, kwargs, node):
    return Iter('items', base)


def m_values(w, ex, base, args, kwargs, node):
    return Iter('values', base)


class Iter(V):
    kind = 'iter'

    def __init__(self, how, base):
        self.how, self.base = how, base


METHODS[('VDict2', 'items')] = m_items
METHODS[('VDict2', 'values')] = m_values
METHODS[('Ref', 'items')] = m_items
METHODS[('Ref', 'values')] = m_values


# --- dict literals -----------------------------------------------------------------------------------

def ex_Dict(self, node):
    if not node.keys:
        return empty_dict2()
    return DictLit([(self.eval(k), self.eval(v)) for k, v in zip(node.keys, node.values)])


_symexec.Executor.ex_Dict = ex_Dict


# --- next(genexp, default) / sum(genexp) over the store's dict ---------------------------------------------

def genexp_reduce(w, ex, node):
    """next((elt for k1, v1 in D.items() for k0, v0 in v1.items() if cond), default)
       -> existential choice: some present item satisfying cond, or default if none does.
       sum(elt for v1 in D.values() for v0 in v1.values())  -> count(), an uninterpreted cardinality of the
       characteristic predicate (extensional: equal predicates have equal counts)."""
    w.use('next')
    kind = node.func.id
    ge = node.args[0]
    saved_env = dict(ex.env)
    home = None
    witnesses = []
    conds = []
    try:
        for comp in ge.generators:
            it = ex.eval(comp.iter)
            if not isinstance(it, Iter):
                raise Unsupported('genexp over %r' % (it,))
            base = it.base
            if isinstance(base, VDict2):
                ref = None
                # find the home of this dict: the iterated expression is `<obj>.<field>.items()`
                fnode = comp.iter.func.value
                o = ex.eval(fnode.value)
                ref = Ref(o, fnode.attr)
                k1 = z3.Int(ex.fresh_name('key1'))
                witnesses.append(k1)
                conds.append(z3.Select(base.has1, k1))
                val = Ref(ref.owner, ref.field, k1)
                bind_target(ex, comp.target, it.how, VInt(k1), val)
            elif isinstance(base, Ref) and base.k1 is not None and base.k0 is None:
                k0 = z3.Int(ex.fresh_name('key0'))
                witnesses.append(k0)
                conds.append(z3.Select(z3.Select(base.d.has, base.k1), k0))
                val = Ref(base.owner, base.field, base.k1, k0)
                bind_target(ex, comp.target, it.how, VInt(k0), val)
            else:
                raise Unsupported('genexp over %r' % (base,))
            for c in comp.ifs:
                saved_mode = ex.mode
                ex.mode = 'spec'          # conditions are pure: evaluate without forking
                try:
                    conds.append(truth(ex.eval(c)))
                finally:
                    ex.mode = saved_mode
        saved_mode = ex.mode
        ex.mode = 'spec'
        try:
            elt = ex.eval(ge.elt)
        finally:
            ex.mode = saved_mode
    finally:
        ex.env = saved_env
    cond = z3.And(*conds) if conds else z3.BoolVal(True)
    if kind == 'next':
        default = ex.eval(node.args[1]) if len(node.args) > 1 else None
        if ex.choose('next-found'):
            ex.assume(cond)
            return elt
        ex.assume(z3.ForAll(witnesses, z3.Not(cond)))
        if default is None:
            raise RaiseSig(VExc('StopIteration'))
        return default
    # sum of truth values over the items = number of items whose element is true
    w.use('sum')
    pred = z3.And(cond, truth(elt))
    if len(witnesses) != 2:
        raise Unsupported('sum over %d nested iterations' % len(witnesses))
    lam = z3.Lambda(witnesses, pred)
    return VInt(COUNT2(lam))


COUNT2 = z3.Function('count2', z3.ArraySort(IntS, IntS, BoolS), IntS)


def bind_target(ex, target, how, key, val):
    if how == 'items':
        if isinstance(target, ast.Tuple) and len(target.elts) == 2:
            ex.assign(target.elts[0], key)
            ex.assign(target.elts[1], val)
        else:
            raise Unsupported('items() target')
    else:
        ex.assign(target, val)


# --- spec functions over the abstract view of the store -----------------------------------------------------

def _store_of(v):
    if isinstance(v, VObj):
        v = v.fields['_dict']
    if not isinstance(v, VDict2):
        raise Unsupported('not a store: %r' % (v,))
    return v


def sp_present(w, ex, node):
    s, a0, a1 = [ex.eval(a) for a in node.args]
    return VBool(present(_store_of(s), to_int(a0), to_int(a1)))


def sp_pending(w, ex, node):
    s, a0, a1 = [ex.eval(a) for a in node.args]
    d = _store_of(s)
    return VBool(z3.And(present(d, to_int(a0), to_int(a1)), z3.Length(view(d, to_int(a0), to_int(a1))) > 0))


class VPktSeq(V):
    kind = 'pktseq'

    def __init__(self, term):
        self.term = term


def sp_view(w, ex, node):
    s, a0, a1 = [ex.eval(a) for a in node.args]
    return VPktSeq(view(_store_of(s), to_int(a0), to_int(a1)))


def sp_pkt(w, ex, node):
    c, d = [ex.eval(a) for a in node.args]
    return VPktSeq(z3.Unit(Pkt.pkt(c.term, d.term)))


def sp_qcat(w, ex, node):
    a, b = [ex.eval(a) for a in node.args]
    return VPktSeq(z3.Concat(a.term, b.term))


def sp_qlen(w, ex, node):
    (a,) = [ex.eval(a) for a in node.args]
    return VInt(z3.Length(a.term))


def sp_qhead_cmd(w, ex, node):
    (a,) = [ex.eval(a) for a in node.args]
    return VBytes(Pkt.cmd(a.term[0]), False)


def sp_qhead_data(w, ex, node):
    (a,) = [ex.eval(a) for a in node.args]
    return VBytes(Pkt.data(a.term[0]), False)


def sp_qtail(w, ex, node):
    (a,) = [ex.eval(a) for a in node.args]
    return VPktSeq(z3.SubSeq(a.term, 1, z3.Length(a.term) - 1))


def sp_qeq(w, ex, node):
    a, b = [ex.eval(a) for a in node.args]
    return VBool(a.term == b.term)


def sp_others_unchanged(w, ex, node):
    """others_unchanged(old_store, new_store, a0, a1): every key other than (a0, a1) has the same presence and view."""
    so, sn, a0, a1 = [ex.eval(a) for a in node.args]
    do, dn = _store_of(so), _store_of(sn)
    x0, x1 = z3.Int('__x0'), z3.Int('__x1')
    body = z3.Implies(z3.Not(z3.And(x0 == to_int(a0), x1 == to_int(a1))),
                      z3.And(present(dn, x0, x1) == present(do, x0, x1), view(dn, x0, x1) == view(do, x0, x1)))
    return VBool(z3.ForAll([x0, x1], body))


def sp_all_unchanged(w, ex, node):
    so, sn = [ex.eval(a) for a in node.args]
    do, dn = _store_of(so), _store_of(sn)
    x0, x1 = z3.Int('__x0'), z3.Int('__x1')
    return VBool(z3.ForAll([x0, x1], z3.And(present(dn, x0, x1) == present(do, x0, x1), view(dn, x0, x1) == view(do, x0, x1))))


def sp_none_present(w, ex, node):
    (s,) = [ex.eval(a) for a in node.args]
    d = _store_of(s)
    x0, x1 = z3.Int('__x0'), z3.Int('__x1')
    return VBool(z3.ForAll([x0, x1], z3.Not(present(d, x0, x1))))


def _pat(d, a0, a1, zeros0=False, zeros1=False):
    """exists a pending key matching the pattern (a0, a1), None = wildcard"""
    x0, x1 = z3.Int('__x0'), z3.Int('__x1')
    n0, v0 = as_opt(a0)
    n1, v1 = as_opt(a1)
    m0 = z3.Or(n0, x0 == to_int(v0)) if v0 is not None else z3.BoolVal(True)
    m1 = z3.Or(n1, x1 == to_int(v1)) if v1 is not None else z3.BoolVal(True)
    return x0, x1, z3.And(m0, m1, present(d, x0, x1), z3.Length(view(d, x0, x1)) > 0)


def sp_exists_pending(w, ex, node):
    """exists_pending(store, a0, a1): some key matching (a0, a1) (None = wildcard) has a pending packet."""
    s, a0, a1 = [ex.eval(a) for a in node.args]
    x0, x1, body = _pat(_store_of(s), a0, a1)
    return VBool(z3.Exists([x0, x1], body))


def sp_matches_pat(w, ex, node):
    """matches_pat(k0, k1, a0, a1): key (k0,k1) matches the pattern (None = wildcard)"""
    k0, k1, a0, a1 = [ex.eval(a) for a in node.args]
    n0, v0 = as_opt(a0)
    n1, v1 = as_opt(a1)
    m0 = z3.Or(n0, to_int(k0) == to_int(v0)) if v0 is not None else z3.BoolVal(True)
    m1 = z3.Or(n1, to_int(k1) == to_int(v1)) if v1 is not None else z3.BoolVal(True)
    return VBool(z3.And(m0, m1))


def sp_count_pending(w, ex, node):
    (s,) = [ex.eval(a) for a in node.args]
    d = _store_of(s)
    x1, x0 = z3.Int('__c1'), z3.Int('__c0')
    lam = z3.Lambda([x1, x0], z3.And(present(d, x0, x1), z3.Length(view(d, x0, x1)) > 0))
    return VInt(COUNT2(lam))


SPEC_FUNCS.update({
    'present': sp_present, 'pending': sp_pending, 'view': sp_view, 'pkt': sp_pkt, 'qcat': sp_qcat, 'qlen': sp_qlen,
    'qhead_cmd': sp_qhead_cmd, 'qhead_data': sp_qhead_data, 'qtail': sp_qtail, 'qeq': sp_qeq,
    'others_unchanged': sp_others_unchanged, 'all_unchanged': sp_all_unchanged, 'none_present': sp_none_present,
    'exists_pending': sp_exists_pending, 'matches_pat': sp_matches_pat, 'count_pending': sp_count_pending,
})


def sp_count_is(w, ex, node):
    """count_is(n, store): n is the number of pending pairs.  When n is itself a count over a characteristic predicate
    (the sum of `not q.empty()` over the items), the claim is the extensional equality of the two predicates."""
    n, s = [ex.eval(a) for a in node.args]
    d = _store_of(s)
    t = n.term
    x1, x0 = z3.Int('__c1'), z3.Int('__c0')
    spec_pred = z3.And(present(d, x0, x1), z3.Length(view(d, x0, x1)) > 0)
    if z3.is_app(t) and t.decl().name() == 'count2':
        lam = t.arg(0)
        return VBool(z3.ForAll([x1, x0], z3.Select(lam, x1, x0) == spec_pred))
    return VBool(t == COUNT2(z3.Lambda([x1, x0], spec_pred)))


SPEC_FUNCS['count_is'] = sp_count_is


# --- opaque crypto and transports ------------------------------------------------------------------------------
SIGF = z3.Function('SIG', IntS, Bytes, Bytes)
PUBKEYF = z3.Function('PUBKEY', IntS, Bytes)


def sp_SIG(w, ex, node):
    k, d = [ex.eval(a) for a in node.args]
    return VBytes(SIGF(k.term, d.term), False)


def sp_PUBKEY(w, ex, node):
    (k,) = [ex.eval(a) for a in node.args]
    return VBytes(PUBKEYF(k.term), False)


def sp_istransport(w, ex, node):
    (t,) = [ex.eval(a) for a in node.args]
    return VBool(isinstance(t, VObj) and t.cls == 'Transport')


SPEC_FUNCS.update({'SIG': sp_SIG, 'PUBKEY': sp_PUBKEY, 'istransport': sp_istransport})


def sp_dents_are(w, ex, node):
    """dents_are(files, lid, f1, n): files[j] == DeviceFile(FS_data(lid, f1+j), FS_w(lid, f1+j, 1), FS_w(.., 2), FS_w(.., 3)) for j < n."""
    from pyvc import specfuns as SF
    files, lid, f1, n = [ex.eval(a) for a in node.args]
    lid, f1, n = to_int(lid), to_int(f1), to_int(n)
    if isinstance(files, VList):
        cl = [z3.BoolVal(True), n == len(files.items)]
        for j, it in enumerate(files.items):
            cl.append(veq(it, VTuple([VBytes(SF.FS_data(lid, f1 + j), True), VInt(SF.FS_w(lid, f1 + j, 1)), VInt(SF.FS_w(lid, f1 + j, 2)),
                                     VInt(SF.FS_w(lid, f1 + j, 3))])))
        return VBool(z3.And(*cl))
    j = z3.Int('__dj')
    e = files.elem(j)
    body = veq(e, VTuple([VBytes(SF.FS_data(lid, f1 + j), True), VInt(SF.FS_w(lid, f1 + j, 1)), VInt(SF.FS_w(lid, f1 + j, 2)), VInt(SF.FS_w(lid, f1 + j, 3))]))
    return VBool(z3.ForAll([j], z3.Implies(z3.And(j >= 0, j < n), body)))


SPEC_FUNCS['dents_are'] = sp_dents_are


IFACEF = z3.Function('IFACE', IntS, IntS)
EPADDRF = z3.Function('EPADDR', IntS, IntS)


def sp_IFACE(w, ex, node):
    (k,) = [ex.eval(a) for a in node.args]
    return VInt(IFACEF(k.term))


def sp_EPADDR(w, ex, node):
    (k,) = [ex.eval(a) for a in node.args]
    return VInt(EPADDRF(k.term))


def sp_trunc(w, ex, node):
    (x,) = [ex.eval(a) for a in node.args]
    t = to_real(x)
    return VInt(z3.If(t >= 0, z3.ToInt(t), -z3.ToInt(-t)))


SPEC_FUNCS.update({'IFACE': sp_IFACE, 'EPADDR': sp_EPADDR, 'trunc': sp_trunc})


PRIVKEYF = z3.Function('PRIVKEY_OF', Bytes, IntS)
KEYNF = z3.Function('KEY_N', IntS, IntS)
KEYEF = z3.Function('KEY_E', IntS, IntS)
B64F = z3.Function('B64', Bytes, Bytes)


def sp_PRIVKEY_OF(w, ex, node):
    (d,) = [ex.eval(a) for a in node.args]
    return VOpaque('PrivKey', PRIVKEYF(d.term))


def sp_KEY_N(w, ex, node):
    (k,) = [ex.eval(a) for a in node.args]
    return VInt(KEYNF(k.term))


def sp_KEY_E(w, ex, node):
    (k,) = [ex.eval(a) for a in node.args]
    return VInt(KEYEF(k.term))


def sp_B64(w, ex, node):
    (d,) = [ex.eval(a) for a in node.args]
    return VBytes(B64F(d.term), False)


SPEC_FUNCS.update({'PRIVKEY_OF': sp_PRIVKEY_OF, 'KEY_N': sp_KEY_N, 'KEY_E': sp_KEY_E, 'B64': sp_B64})


def _inst_B64(app):
    s = app.arg(0)
    return [z3.Length(app) == 4 * ((z3.Length(s) + 2) / 3)]


from pyvc import specfuns as _SF      # noqa: E402
_SF.EXTRA_INSTANCES['B64'] = _inst_B64


MODINVF = z3.Function('MODINV32', IntS, IntS)


def sp_MODINV32(w, ex, node):
    (e,) = [ex.eval(a) for a in node.args]
    return VInt(MODINVF(to_int(e)))


SPEC_FUNCS['MODINV32'] = sp_MODINV32
