"""World hooks: semantics of the few library data structures the code uses (installed per twin)."""


def install(world):
    pass
