"""C20: the USB transport refines the abstract transport contract, GIVEN a libusb (python-libusb1) backend that behaves per its
documentation (assumed below).  usb1 is not installed here; irrelevant for proof -- the AST is read, not imported."""
from pyvc.dsl import contract, klass, CONTRACTS
from contracts.transport import TIME

klass('UsbTransport', {'_setting': 'opaque:Setting', '_device': 'opaque:UsbDevice', '_transport': 'opt[opaque:Handle]', '_interface_number': 'opt[int]',
                       '_read_endpoint': 'opt[int]', '_write_endpoint': 'opt[int]', '_usb_info': 'str', '_default_transport_timeout_s': 'real',
                       '_max_read_packet_len': 'int'},
      real={'sync': 'transport.usb_transport:UsbTransport'})

USB = 'transport.usb_transport:UsbTransport.'
ERR = {'usb1.USBError': ['G.now >= old(G.now)']}

# ---- assumed python-libusb1 contracts -------------------------------------------------------------------------------------------
contract('Setting.iterEndpoints', trusted=True, params={'self': 'opaque:Setting'}, returns='list[opaque:Endpoint]', modifies=[], ensures=[], raises={})
contract('Setting.getNumber', trusted=True, params={'self': 'opaque:Setting'}, returns='int', modifies=[], ensures=['result == IFACE(self)'], raises={})
contract('Endpoint.getAddress', trusted=True, params={'self': 'opaque:Endpoint'}, returns='int', modifies=[],
         ensures=['result == EPADDR(self)', 'result >= 0 and result < 256'], raises={})
contract('UsbDevice.open', trusted=True, params={'self': 'opaque:UsbDevice'}, returns='opaque:Handle',
         modifies=['G.topen', 'G.session', 'G.dev', 'G.rpos', 'G.now', 'G.usb_claimed', 'G.usb_kd'],
         ensures=['G.topen', 'G.session == old(G.session) + 1', 'G.rpos == 0', 'G.now >= old(G.now)', 'isnone(G.usb_claimed)',
                  "implies(PLATFORM == 'Windows', not G.usb_kd)"],      # libusb: no kernel driver handling on Windows
         raises={'usb1.USBError': ['G.session == old(G.session)', 'G.now >= old(G.now)', 'G.topen == old(G.topen)']})
contract('UsbDevice.getSerialNumber', trusted=True, params={'self': 'opaque:UsbDevice'}, returns='str', modifies=[], ensures=[], raises={'usb1.USBError': []})
contract('Handle.kernelDriverActive', trusted=True, params={'self': 'opaque:Handle', 'interface': 'int'}, returns='bool', modifies=[],
         ensures=['result == G.usb_kd'], raises={'usb1.USBErrorNotFound': ['not G.usb_kd'], 'usb1.USBError': []})
contract('Handle.detachKernelDriver', trusted=True, params={'self': 'opaque:Handle', 'interface': 'int'}, modifies=['G.usb_kd'], ensures=['not G.usb_kd'],
         raises={'usb1.USBErrorNotFound': ['not G.usb_kd'], 'usb1.USBError': []})
# libusb: claiming an interface a kernel driver is bound to fails with LIBUSB_ERROR_BUSY -- the caller has to have looked (and detached) first
contract('Handle.claimInterface', trusted=True, params={'self': 'opaque:Handle', 'interface': 'int'}, modifies=['G.usb_claimed'],
         requires=[('C20', 'no-kernel-driver-bound-any-more', 'not G.usb_kd')],
         ensures=['same(G.usb_claimed, interface)'], raises={'usb1.USBError': ['same(G.usb_claimed, old(G.usb_claimed))']})
contract('Handle.releaseInterface', trusted=True, params={'self': 'opaque:Handle', 'interface': 'opt[int]'}, modifies=['G.usb_claimed'],
         ensures=['isnone(G.usb_claimed)'], raises={'usb1.USBError': []})
contract('Handle.close', trusted=True, params={'self': 'opaque:Handle'}, modifies=['G.topen', 'G.now'], ensures=['not G.topen', 'G.now >= old(G.now)'],
         raises={'usb1.USBError': ['G.now >= old(G.now)']})
contract('Handle.bulkRead', trusted=True,
         params={'self': 'opaque:Handle', 'endpoint': 'opt[int]', 'length': 'int', 'timeout': 'int'}, returns='bytearray',
         modifies=['G.rpos', 'G.now'],
         ensures=['len(result) <= ite(length > 0, length, 0)', 'result == old(G.dev)[old(G.rpos):old(G.rpos) + len(result)]',
                  'G.rpos == old(G.rpos) + len(result)', 'G.rpos <= len(G.dev)', 'G.now >= old(G.now)',
                  'implies(timeout > 0, (G.now - old(G.now)) * 1000 <= timeout)'],
         raises={'usb1.USBError': ['G.rpos >= old(G.rpos)', 'G.rpos <= len(G.dev)', 'G.now >= old(G.now)', 'implies(timeout > 0, (G.now - old(G.now)) * 1000 <= timeout)']},
         doc='bulkRead(endpoint, length, timeout=ms): at most `length` bytes of the IN stream, or USBError (timeout 0 = unlimited)')
contract('Handle.bulkWrite', trusted=True,
         params={'self': 'opaque:Handle', 'endpoint': 'opt[int]', 'data': 'bytes', 'timeout': 'int'}, returns='int',
         modifies=['G.wire', 'G.nwrites', 'G.peer_rx', 'G.short', 'G.now'],
         ensures=['result >= 0 and result <= len(data)', 'G.wire == old(G.wire) + data', 'G.nwrites == old(G.nwrites) + 1',
                  'G.peer_rx == old(G.peer_rx) + data[:result]', 'G.short == (old(G.short) or result < len(data))', 'G.now >= old(G.now)',
                  'implies(timeout > 0, (G.now - old(G.now)) * 1000 <= timeout)'],
         raises={'usb1.USBError': ['G.wire == old(G.wire) + data', 'G.nwrites == old(G.nwrites) + 1', 'G.now >= old(G.now)',
                                   'implies(timeout > 0, (G.now - old(G.now)) * 1000 <= timeout)']})

# ---- UsbTransport ---------------------------------------------------------------------------------------------------------------------
ABS = {k: CONTRACTS['Transport.' + k] for k in ('bulk_read', 'bulk_write', 'connect', 'close')}
MS = 'ite(isnone(transport_timeout_s), trunc(self._default_transport_timeout_s * 1000), trunc(val(transport_timeout_s) * 1000))'
UINV = 'implies(isnone(self._transport), not G.topen)'

contract('UsbTransport.__init__', real={'sync': USB + '__init__'}, twins=('sync',),
         params={'self': 'obj:UsbTransport', 'device': 'opaque:UsbDevice', 'setting': 'opaque:Setting', 'usb_info': 'opt[str]',
                 'default_transport_timeout_s': 'opt[real]'},
         props=['C20'], modifies=['self.*'],
         ensures=[('C20', 'starts-closed', 'isnone(self._transport) and isnone(self._read_endpoint) and isnone(self._write_endpoint)'),
                  ('C20', 'default-timeout-is-the-argument-or-10s',
                   'self._default_transport_timeout_s == ite(isnone(default_transport_timeout_s), 10, val(default_transport_timeout_s))')])

contract('UsbTransport._timeout_ms', real={'sync': USB + '_timeout_ms'}, twins=('sync',),
         params={'self': 'obj:UsbTransport', 'transport_timeout_s': 'opt[real]'}, returns='int', props=['C20'], pure=True,
         ensures=[('C20', 'milliseconds-of-the-given-timeout-or-of-the-default', 'result == ' + MS)])

contract('UsbTransport.bulk_read', real={'sync': USB + 'bulk_read'}, twins=('sync',),
         params={'self': 'obj:UsbTransport', 'numbytes': 'int', 'transport_timeout_s': 'opt[real]'}, returns='bytes',
         props=['C20'],
         requires=['G.rpos >= 0 and G.rpos <= len(G.dev)'],
         modifies=['G.rpos', 'G.now'],
         ensures=[('C20', 'was-open', 'not isnone(self._transport)'),
                  ('C20', 'never-more-than-requested-in-order', 'len(result) <= ite(numbytes > 0, numbytes, 0) and '
                                                                'result == old(G.dev)[old(G.rpos):old(G.rpos) + len(result)] and G.rpos == old(G.rpos) + len(result)'),
                  ('C20', 'result-is-bytes', 'isbytes(result)')],
         raises={'UsbReadFailedError': [('C20', 'libusb-error-or-use-after-close', 'True')]},
         call_asserts={'Handle.bulkRead': [('C20', 'reads-the-IN-endpoint-with-the-timeout-in-ms',
                                            'same(_arg_endpoint, self._read_endpoint) and _arg_length == numbytes and _arg_timeout == ' + MS)]})

contract('UsbTransport.bulk_write', real={'sync': USB + 'bulk_write'}, twins=('sync',),
         params={'self': 'obj:UsbTransport', 'data': 'bytes', 'transport_timeout_s': 'opt[real]'}, returns='int',
         props=['C20', 'C15'],
         modifies=['G.wire', 'G.nwrites', 'G.peer_rx', 'G.short', 'G.now'],
         ensures=[('C20', 'was-open', 'not isnone(self._transport)')] + [('C20,C15', 'refines[%s]' % c.label, c.expr) for c in ABS['bulk_write'].ensures[:5]],
         raises={'UsbWriteFailedError': [('C20', 'libusb-error-or-use-after-close', 'True')]},
         call_asserts={'Handle.bulkWrite': [('C20', 'writes-the-OUT-endpoint-with-the-timeout-in-ms',
                                             'same(_arg_endpoint, self._write_endpoint) and _arg_data == data and _arg_timeout == ' + MS)]})

contract('UsbTransport.close', real={'sync': USB + 'close'}, twins=('sync',),
         params={'self': 'obj:UsbTransport'},
         props=['C20', 'C12'],
         requires=[UINV],
         modifies=['self._transport', 'G.topen', 'G.now', 'G.usb_claimed'],
         ensures=[('C20,C12', 'closed-on-every-path', 'isnone(self._transport)'),
                  ('C20', 'idempotent', 'implies(isnone(old(self._transport)), G.now == old(G.now) and G.topen == old(G.topen))')],
         raises={},
         call_asserts={'Handle.releaseInterface': [('C20', 'releases-the-claimed-interface', 'same(_arg_interface, self._interface_number)')]},
         doc='releaseInterface + close, USBError swallowed, _transport = None in a finally; a second close is a no-op')

contract('UsbTransport.connect', real={'sync': USB + 'connect'}, twins=('sync',),
         params={'self': 'obj:UsbTransport', 'transport_timeout_s': 'opt[real]'},
         locals={'read_endpoint': 'opt[int]', 'write_endpoint': 'opt[int]', 'address': 'int'},
         props=['C20'],
         modifies=['self._transport', 'self._read_endpoint', 'self._write_endpoint', 'self._interface_number', 'G.topen', 'G.session', 'G.dev', 'G.rpos',
                   'G.now', 'G.usb_claimed', 'G.usb_kd'],
         ensures=[('C20', 'claims-the-ADB-interface-on-the-handle-just-opened', 'same(G.usb_claimed, IFACE(self._setting)) and not isnone(self._transport) and '
                                                                               'same(self._interface_number, IFACE(self._setting))'),
                  ('C20', 'IN-endpoint-for-reads-OUT-endpoint-for-writes',
                   'not isnone(self._read_endpoint) and not isnone(self._write_endpoint) and (val(self._read_endpoint) // 128) % 2 == 1 '
                   'and (val(self._write_endpoint) // 128) % 2 == 0'),
                  ('C20', 'fresh-session', 'G.topen and G.session == old(G.session) + 1 and G.rpos == 0')],
         raises={'AssertionError': [('C20', 'only-when-the-interface-lacks-an-IN-or-an-OUT-endpoint', 'True')],
                 'usb1.USBError': []},
         loops={0: dict(invariant=[
             ('C20', 'isnone(read_endpoint) or (val(read_endpoint) // 128) % 2 == 1'),
             ('C20', 'isnone(write_endpoint) or (val(write_endpoint) // 128) % 2 == 0'),
             ('C20', 'G.session == old(G.session)'),
         ])})
