"""Contracts for the remaining helpers in hidden_helpers.py: transaction-info objects (C11 normalisation, C07 buffer)."""
from pyvc.dsl import contract, klass

klass('FSInfo', {'send_buffer': 'bytearray', 'send_idx': 'int', 'recv_buffer': 'bytearray', 'recv_message_format': 'bytes',
                 'recv_message_size': 'int', '_maxdata': 'int'},
      real='hidden_helpers:_FileSyncTransactionInfo')

contract('AdbInfo.__init__',
         real='hidden_helpers:_AdbTransactionInfo.__init__',
         params={'self': 'obj:AdbInfo', 'local_id': 'opt[int]', 'remote_id': 'opt[int]', 'transport_timeout_s': 'opt[real]',
                 'read_timeout_s': 'real', 'timeout_s': 'opt[real]'},
         props=['C11', 'C14', 'C05'],
         modifies=['self.*'],
         ensures=[('C11', 'transport<=read', 'not isnone(self.transport_timeout_s) and val(self.transport_timeout_s) <= self.read_timeout_s'),
                  ('C11', 'read<=total', 'implies(not isnone(timeout_s), self.read_timeout_s <= val(timeout_s))'),
                  ('C11', 'read-timeout-value',
                   'self.read_timeout_s == ite(isnone(timeout_s), read_timeout_s, ite(val(timeout_s) < read_timeout_s, val(timeout_s), read_timeout_s))'),
                  ('C11', 'transport-timeout-value',
                   'val(self.transport_timeout_s) == ite(isnone(transport_timeout_s), self.read_timeout_s, '
                   'ite(self.read_timeout_s < val(transport_timeout_s), self.read_timeout_s, val(transport_timeout_s)))'),
                  ('C11,C14,C05', 'ids-and-total-stored', 'same(self.local_id, local_id) and same(self.remote_id, remote_id) and same(self.timeout_s, timeout_s)')],
         doc='effective timeouts always satisfy transport <= read <= total, for all inputs incl. None, 0 and negatives')

for _fmt, _n in (("b'<5I'", 20), ("b'<2I'", 8), ("b'<4I'", 16)):
    pass

contract('FSInfo.__init__',
         real='hidden_helpers:_FileSyncTransactionInfo.__init__',
         inline=True,
         params={'self': 'obj:FSInfo', 'recv_message_format': "lit:b'<2I'", 'maxdata': 'int'},
         variants=[{'recv_message_format': "lit:b'<2I'"}, {'recv_message_format': "lit:b'<5I'"}, {'recv_message_format': "lit:b'<4I'"}],
         props=['C07', 'C08', 'C09'],
         requires=['maxdata >= 0'],
         modifies=['self.*'],
         ensures=[('C07', 'send-buffer-has-maxdata-bytes', 'len(self.send_buffer) == maxdata and self.send_idx == 0 and self._maxdata == maxdata'),
                  ('C08,C09', 'recv-buffer-empty', 'len(self.recv_buffer) == 0'),
                  ('C08,C09', 'record-header-size', 'self.recv_message_format == recv_message_format and '
                   'self.recv_message_size == ite(recv_message_format == b"<5I", 20, ite(recv_message_format == b"<4I", 16, 8))')])

contract('FSInfo.can_add_to_send_buffer',
         real='hidden_helpers:_FileSyncTransactionInfo.can_add_to_send_buffer',
         inline=True,
         params={'self': 'obj:FSInfo', 'data_len': 'int'},
         returns='bool', props=['C07'], pure=True,
         ensures=[('C07', 'threshold', 'result == (self.send_idx + self.recv_message_size + data_len < self._maxdata)')])
