"""Contracts for adb_shell/adb_message.py  (C02: every packet the host emits is a well-formed ADB message)."""
from pyvc.dsl import contract, lemma

IN_RANGE = 'val(self.arg0) >= 0 and val(self.arg0) < 2**32 and val(self.arg1) >= 0 and val(self.arg1) < 2**32 and len(self.data) < 2**32'
ARGS_INT = 'not isnone(self.arg0) and not isnone(self.arg1)'
WF_MSG = 'self.command >= 0 and self.command < 2**32 and self.magic == 2**32 - 1 - self.command'

contract('adb_message.checksum',
         real='adb_message:checksum',
         params={'data': 'bytes'},
         variants=[{'data': 'bytes'}, {'data': 'bytearray'}],
         returns='int',
         props=['C02', 'C03'],
         pure=True,
         ensures=[('C02,C03', 'sum-mod-2^32', 'result == bsum(data) % 2**32'),
                  'result >= 0 and result < 2**32'],
         doc='byte sum modulo 2^32, for bytes and bytearray; the Python-2 arm is unreachable under Python-3 typing')

contract('Msg.__init__',
         real='adb_message:AdbMessage.__init__',
         inline=True,
         params={'self': 'obj:Msg', 'command': 'bytes', 'arg0': 'opt[int]', 'arg1': 'opt[int]', 'data': 'bytes'},
         variants=[{'data': 'bytes'}, {'data': 'bytearray'}],
         props=['C02'],
         modifies=['self.*'],
         ensures=[('C02', 'known-command', 'command in IDS'),
                  ('C02', 'command-word', 'self.command == ID_TO_WIRE[command]'),
                  ('C02', 'magic-complement', 'self.magic == 2**32 - 1 - self.command and self.command >= 0 and self.command < 2**32'),
                  ('C02', 'fields-verbatim', 'same(self.arg0, arg0) and same(self.arg1, arg1) and self.data == data')],
         raises={'KeyError': [('C02', 'unknown-command', 'command not in IDS')]},
         doc='raises KeyError iff command is not one of the 7 protocol commands; magic is the 32-bit complement of the command word')

contract('Msg.pack',
         real='adb_message:AdbMessage.pack',
         params={'self': 'obj:Msg'},
         variants=[{'self.data': 'bytes'}, {'self.data': 'bytearray'}],
         returns='bytes',
         props=['C02'],
         requires=[WF_MSG],
         ensures=[('C02', 'fields-in-range', ARGS_INT + ' and ' + IN_RANGE),
                  ('C02', 'header-layout',
                   'result == hdr(self.command, val(self.arg0), val(self.arg1), len(self.data), bsum(self.data) % 2**32, self.magic)'),
                  ('C02', 'header-24-bytes', 'len(result) == 24')],
         raises={'struct.error': [('C02', 'unframeable-only', 'not (' + ARGS_INT + ' and ' + IN_RANGE + ')')]},
         doc='24-byte little-endian header; a message whose fields do not fit 32 bits raises struct.error and returns nothing')

contract('adb_message.unpack',
         real='adb_message:unpack',
         params={'message': 'bytes'},
         returns='tuple[int,int,int,int,int]',
         props=['C02', 'C03'],
         pure=True,
         ensures=[('C02,C03', 'length-24', 'len(message) == 24'),
                  ('C02,C03', 'five-le-words',
                   'result == (word(message, 0), word(message, 1), word(message, 2), word(message, 3), word(message, 4))'),
                  'result[0] >= 0 and result[0] < 2**32 and result[1] >= 0 and result[1] < 2**32 and result[2] >= 0 and result[2] < 2**32'
                  ' and result[3] >= 0 and result[3] < 2**32 and result[4] >= 0 and result[4] < 2**32'],
         raises={'ValueError': [('C02,C03', 'bad-length', 'len(message) != 24')]})


def _roundtrip(z3, SF, V):
    """unpack(pack(msg)) returns the original fields, and word 5 is the complement of the command."""
    c, a0, a1, ln, cs = z3.Ints('c a0 a1 ln cs')
    rng = [z3.And(x >= 0, x < 2 ** 32) for x in (c, a0, a1, ln, cs)]
    magic = 2 ** 32 - 1 - c
    packed = z3.Concat(SF.le32(c), SF.le32(a0), SF.le32(a1), SF.le32(ln), SF.le32(cs), SF.le32(magic))
    words = [SF.unle32(z3.SubSeq(packed, 4 * i, 4)) for i in range(6)]
    claim = z3.And(z3.Length(packed) == 24, words[0] == c, words[1] == a0, words[2] == a1, words[3] == ln, words[4] == cs,
                   words[5] == 2 ** 32 - 1 - c)
    return rng, claim


lemma('adb_message/roundtrip', ['C02'], _roundtrip, 'unpack(pack(m)) == (command, arg0, arg1, len(data), checksum) and word 5 == ~command')


def _le32_def(z3, SF, V):
    """The axioms used for le32/unle32 hold of the byte-wise little-endian definition (so they are consistent):
    with b_i = (x div 256^i) mod 256, sum b_i 256^i == x for 0 <= x < 2^32, and each b_i is a byte."""
    x = z3.Int('x')
    b = [(x / (256 ** i)) % 256 for i in range(4)]
    back = b[0] + 256 * b[1] + 65536 * b[2] + 16777216 * b[3]
    return [x >= 0, x < 2 ** 32], z3.And(back == x, *[z3.And(bi >= 0, bi < 256) for bi in b])


lemma('spec/le32-definition-consistent', ['C02', 'C03'], _le32_def, 'little-endian digits of a 32-bit word recompose to the word')


def _complement(z3, SF, V):
    """2^32-1-c is the bitwise complement of c on 32 bits (checked on bit-vectors)."""
    c = z3.BitVec('c', 32)
    return [], (~c) == (z3.BitVecVal(2 ** 32 - 1, 32) - c)


lemma('spec/magic-is-bitwise-complement', ['C02'], _complement, 'for 32-bit c: ~c == 0xFFFFFFFF - c, i.e. c ^ 0xFFFFFFFF')


def _constants(z3, SF, V):
    """The real constants.py (executed, not transcribed): for each of the 7 IDS, ID_TO_WIRE[c] is the little-endian word of c,
    WIRE_TO_ID is its inverse, the wire values are pairwise distinct; MESSAGE_FORMAT/MESSAGE_SIZE describe six 32-bit words."""
    from pyvc import dsl
    C = dsl.CONSTANTS
    cl = []
    cl.append(z3.BoolVal(tuple(C.IDS) == (b'AUTH', b'CLSE', b'CNXN', b'OKAY', b'OPEN', b'SYNC', b'WRTE')))
    cl.append(z3.BoolVal(set(C.ID_TO_WIRE) == set(C.IDS) and len(set(C.ID_TO_WIRE.values())) == 7))
    cl.append(z3.BoolVal(C.WIRE_TO_ID == {v: k for k, v in C.ID_TO_WIRE.items()}))
    cl.append(z3.BoolVal(C.MESSAGE_FORMAT in (b'<6I', '<6I') and C.MESSAGE_SIZE == 24))
    for c in C.IDS:
        w = C.ID_TO_WIRE.get(c)
        cl.append(z3.BoolVal(isinstance(w, int)))
        cl.append(SF.unle32(V.bytes_const(c)) == (w if isinstance(w, int) else -1))
    fs = C.FILESYNC_IDS
    cl.append(z3.BoolVal(set(fs) == {b'DATA', b'DENT', b'DONE', b'FAIL', b'LIST', b'OKAY', b'QUIT', b'RECV', b'SEND', b'STAT'}))
    cl.append(z3.BoolVal(C.FILESYNC_WIRE_TO_ID == {v: k for k, v in C.FILESYNC_ID_TO_WIRE.items()} and len(C.FILESYNC_WIRE_TO_ID) == 10))
    for c in fs:
        w = C.FILESYNC_ID_TO_WIRE.get(c)
        cl.append(SF.unle32(V.bytes_const(c)) == (w if isinstance(w, int) else -1))
    return [], z3.And(*cl)


lemma('constants/id-wire-tables', ['C02', 'C03', 'C07', 'C08', 'C09'], _constants,
      'ID_TO_WIRE / WIRE_TO_ID / FILESYNC tables of the real constants.py against the spec function unle32')


def _cat_split_base(z3, SF, V):
    l, s, a = z3.Ints('l s a')
    return [a >= 0], SF.catD(l, s, a + 0) == z3.Concat(SF.catD(l, s, a), SF.catD(l, s + a, 0))


def _cat_split_step(z3, SF, V):
    """induction step on b, with the hypothesis for b at the same (l, s, a)"""
    l, s, a, b = z3.Ints('l s a b')
    ih = SF.catD(l, s, a + b) == z3.Concat(SF.catD(l, s, a), SF.catD(l, s + a, b))
    return [a >= 0, b >= 0, ih], SF.catD(l, s, a + (b + 1)) == z3.Concat(SF.catD(l, s, a), SF.catD(l, s + a, b + 1))


lemma('spec/cat-split-base', ['C08', 'C09', 'C07', 'C04', 'C01'], _cat_split_base, 'catD(l,s,a+0) == catD(l,s,a) ++ catD(l,s+a,0)')
lemma('spec/cat-split-step', ['C08', 'C09', 'C07', 'C04', 'C01'], _cat_split_step,
      'if catD(l,s,a+b) == catD(l,s,a) ++ catD(l,s+a,b) then the same for b+1 (so the split instances added to queries are sound; '
      'catFS and rep have the same unfolding axioms)')
