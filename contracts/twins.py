"""C16: the async twin is the sync code modulo a finite list of accepted representational differences.

Part (1) of DESIGN 4/C16 is structural: every obligation of C01-C15 is generated for BOTH twins from the same contract text
(see `twins` in pyvc.dsl.Contract; the evidence of those properties lists both).

Part (2), here: a relational obligation per function pair, discharged equationally (back end `ast-frame`):
both functions are brought to a normal form by rewrite rules each of which is justified by an axiom of the async semantics used
throughout (A-AWAIT) or by a proved fact, and the normal forms must be *identical* -- identical code over identical callees has
identical traces, results and exceptions for every input, by congruence.  Any edit applied to one twin only (e.g. a fix) changes
its normal form and fails `C16/<function>/twin-normal-forms-equal`.

Rewrite rules (the accepted differences; nothing else is tolerated):
  R1  await e == e; async def/with/for == def/with/for; async comprehension == comprehension          (A-AWAIT, pyvc.source)
  R2  names: *Async class names drop the suffix; base_transport_async/tcp_transport_async modules likewise
  R3  get_running_loop().run_in_executor(None, f, *a) == f(*a)                                       (executor runs f to completion)
  R4  aiofiles.open == open                                                                          (same file semantics, awaitable methods)
  R5  [x for x in G] == G   when consumed by b''.join / iteration                                    (materialised async generator)
  R6  for v in G: yield v == yield from G
  R7  _DECODE_ERRORS == 'backslashreplace'                                                           (module constant under Python 3; checked below)
  R8  _AsyncBytesIO(s) == s ; w._bytesio == w ; isinstance(w, _AsyncBytesIO) == isinstance(w, BytesIO) (the wrapper only forwards read/write: checked below)
  R9  x = a if c else b  ==  if c: x = a else: x = b
  R10 class names inside exception-message string literals follow R2 (only exception *types* are compared)
  R11 local variables are compared up to consistent renaming (alpha-equivalence; parameters keep their names: they are API)
  R12 calls on _LOGGER / warnings.warn as statements are dropped (A-LOG)

When the normal forms still differ, identity of code is not available as an argument.  The pair is then decided by the SHARED CONTRACT
(pyvc.check.c16_second_tier): every obligation of the pair's contract, for every property it carries, is generated for both twins and
must discharge -- both twins then equal the same specification on everything the contract pins down (peer image, result, exception
class, state).  A refuted obligation is the C16 violation (a correction made to one twin only fails it for the other); a pair that
differs and has no contract is UNDECIDED, never a violation by itself.
"""
import ast
import copy

from pyvc.dsl import framescan

RENAMES = {'_AdbIOManagerAsync': '_AdbIOManager', 'AdbDeviceAsync': 'AdbDevice', 'AdbDeviceTcpAsync': 'AdbDeviceTcp',
           'TcpTransportAsync': 'TcpTransport', 'BaseTransportAsync': 'BaseTransport', '_AsyncBytesIO': 'BytesIO'}


class Normalise(ast.NodeTransformer):
    def visit_Name(self, node):
        if node.id in RENAMES:
            return ast.copy_location(ast.Name(id=RENAMES[node.id], ctx=node.ctx), node)
        if node.id == '_DECODE_ERRORS':                                          # R7
            return ast.copy_location(ast.Constant(value='backslashreplace'), node)
        return node

    def visit_Constant(self, node):
        if isinstance(node.value, str):                                          # R10 (message texts name the class)
            v = node.value
            for a, b in RENAMES.items():
                v = v.replace(a, b)
            return ast.copy_location(ast.Constant(value=v), node)
        return node

    def visit_Attribute(self, node):
        self.generic_visit(node)
        if node.attr == '_bytesio':                                              # R8
            return node.value
        if isinstance(node.value, ast.Name) and node.value.id == 'aiofiles' and node.attr == 'open':   # R4
            return ast.copy_location(ast.Name(id='open', ctx=node.ctx), node)
        return node

    def visit_Call(self, node):
        self.generic_visit(node)
        f = node.func
        if isinstance(f, ast.Attribute) and f.attr == 'run_in_executor' and isinstance(f.value, ast.Call) \
                and isinstance(f.value.func, ast.Name) and f.value.func.id == 'get_running_loop' and len(node.args) >= 2 \
                and isinstance(node.args[0], ast.Constant) and node.args[0].value is None:              # R3
            return ast.copy_location(ast.Call(func=node.args[1], args=node.args[2:], keywords=[]), node)
        if isinstance(f, ast.Name) and f.id == 'BytesIO' and len(node.args) == 1 and getattr(node, '_was_wrapper', False):
            return node.args[0]
        return node

    def visit_ListComp(self, node):
        self.generic_visit(node)
        if len(node.generators) == 1 and not node.generators[0].ifs and isinstance(node.elt, ast.Name) \
                and isinstance(node.generators[0].target, ast.Name) and node.elt.id == node.generators[0].target.id:   # R5
            return node.generators[0].iter
        return node

    def visit_For(self, node):
        self.generic_visit(node)
        b = node.body
        if (len(b) == 1 and isinstance(b[0], ast.Expr) and isinstance(b[0].value, ast.Yield) and isinstance(b[0].value.value, ast.Name)
                and isinstance(node.target, ast.Name) and b[0].value.value.id == node.target.id and not node.orelse):   # R6
            return ast.copy_location(ast.Expr(value=ast.YieldFrom(value=node.iter)), node)
        return node

    def visit_Assign(self, node):
        self.generic_visit(node)
        if isinstance(node.value, ast.IfExp) and len(node.targets) == 1:        # R9
            v = node.value
            return ast.copy_location(ast.If(test=v.test, body=[ast.Assign(targets=node.targets, value=v.body)],
                                            orelse=[ast.Assign(targets=copy.deepcopy(node.targets), value=v.orelse)]), node)
        return node

    def visit_Expr(self, node):
        self.generic_visit(node)
        if isinstance(node.value, ast.Constant) and isinstance(node.value.value, str):
            return None                                                          # docstrings
        return node


def wrapper_calls(tree):
    """R8: _AsyncBytesIO(s) == s"""
    class W(ast.NodeTransformer):
        def visit_Call(self, node):
            self.generic_visit(node)
            if isinstance(node.func, ast.Name) and node.func.id == '_AsyncBytesIO' and len(node.args) == 1:
                return node.args[0]
            return node
    return W().visit(tree)


class DropLogging(ast.NodeTransformer):                                          # R12
    def visit_Expr(self, node):
        v = node.value
        if isinstance(v, ast.Call) and isinstance(v.func, ast.Attribute) and isinstance(v.func.value, ast.Name) \
                and (v.func.value.id == '_LOGGER' or (v.func.value.id == 'warnings' and v.func.attr == 'warn')):
            return None
        return node


def alpha_rename(fn):
    """R11: locals (names bound in the function that are not parameters, not declared global/nonlocal) -> _v<k> in order of first
    occurrence in a fixed traversal.  Nested function definitions / lambdas / comprehensions share the numbering (conservative:
    a capture-changing rename would change the dump, never hide a difference)."""
    params = {a.arg for a in fn.args.posonlyargs + fn.args.args + fn.args.kwonlyargs}
    if fn.args.vararg:
        params.add(fn.args.vararg.arg)
    if fn.args.kwarg:
        params.add(fn.args.kwarg.arg)
    declared = set()
    bound = set()
    for n in ast.walk(fn):
        if isinstance(n, (ast.Global, ast.Nonlocal)):
            declared.update(n.names)
        elif isinstance(n, ast.Name) and isinstance(n.ctx, (ast.Store, ast.Del)):
            bound.add(n.id)
        elif isinstance(n, ast.ExceptHandler) and n.name:
            bound.add(n.name)
        elif isinstance(n, (ast.FunctionDef, ast.AsyncFunctionDef, ast.Lambda)) and n is not fn:
            a = n.args
            for x in a.posonlyargs + a.args + a.kwonlyargs + ([a.vararg] if a.vararg else []) + ([a.kwarg] if a.kwarg else []):
                bound.add(x.arg)
    locals_ = bound - params - declared
    order = {}

    class R(ast.NodeTransformer):
        def visit_Name(self, node):
            if node.id in locals_:
                order.setdefault(node.id, '_v%d' % len(order))
                return ast.copy_location(ast.Name(id=order[node.id], ctx=node.ctx), node)
            return node

        def visit_ExceptHandler(self, node):
            if node.name and node.name in locals_:
                order.setdefault(node.name, '_v%d' % len(order))
                node.name = order[node.name]
            self.generic_visit(node)
            return node

        def visit_arg(self, node):
            if node.arg in locals_:
                order.setdefault(node.arg, '_v%d' % len(order))
                node.arg = order[node.arg]
            return node
    body = [R().visit(st) for st in fn.body]
    fn.body = body
    return fn


def normal_form(fn):
    fn = copy.deepcopy(fn)
    fn = wrapper_calls(fn)
    fn = Normalise().visit(fn)
    fn = DropLogging().visit(fn)
    fn = alpha_rename(fn)
    fn.decorator_list = [d for d in fn.decorator_list if not (isinstance(d, ast.Name) and d.id in ('contextmanager', 'asynccontextmanager'))]
    fn.returns = None
    ast.fix_missing_locations(fn)
    body = [s for s in fn.body if s is not None] or [ast.Pass()]
    return ast.dump(ast.Module(body=body, type_ignores=[]), annotate_fields=False), ast.dump(fn.args, annotate_fields=False)


PAIRS_IO = ['__init__', 'close', 'connect', 'read', 'send', '_read_expected_packet_from_device', '_read_bytes_from_device',
            '_read_packet_from_device', '_send', '_write_bytes_to_device']
PAIRS_DEV = ['__init__', 'available', 'max_chunk_size', '_get_transport_timeout_s', 'close', 'connect', '_service', '_streaming_service', 'exec_out',
             'reboot', 'root', 'shell', 'streaming_shell', 'list', 'pull', '_pull', 'push', '_push', 'stat', '_clse', '_okay', '_open', '_read_until',
             '_read_until_close', '_streaming_command', '_filesync_flush', '_filesync_read', '_filesync_read_buffered', '_filesync_read_until',
             '_filesync_send']


def make_scan(sync_q, async_q):
    def scan(sources, twin):
        if twin != 'sync':
            return []                         # one relational obligation per pair
        ms, ma = sources.module('adb_device'), sources.module('adb_device_async')
        if sync_q not in ms.funcs:
            return ['%s missing in adb_device.py' % sync_q]
        if async_q not in ma.funcs:
            return ['%s missing in adb_device_async.py' % async_q]
        a, aa = normal_form(ms.funcs[sync_q])
        b, ba = normal_form(ma.funcs[async_q])
        out = []
        if aa != ba:
            out.append('UNDECIDED: the signatures of %s and %s differ' % (sync_q, async_q))
        if a != b:
            # locate the first differing statement for the report
            sa, sb = ms.funcs[sync_q].body, ma.funcs[async_q].body
            out.append('normal forms differ (sync line %d.., async line %d..)' % (ms.funcs[sync_q].lineno, ma.funcs[async_q].lineno))
        return out
    return scan


for _n in PAIRS_IO:
    framescan('C16/_AdbIOManager.%s/twin-normal-forms-equal' % _n, ['C16'], make_scan('_AdbIOManager.' + _n, '_AdbIOManagerAsync.' + _n),
              'sync and async I/O manager method %s have the same normal form under R1-R9' % _n)
for _n in PAIRS_DEV:
    framescan('C16/AdbDevice.%s/twin-normal-forms-equal' % _n, ['C16'], make_scan('AdbDevice.' + _n, 'AdbDeviceAsync.' + _n),
              'sync and async device method %s have the same normal form under R1-R9' % _n)
framescan('C16/AdbDeviceTcp.__init__/twin-normal-forms-equal', ['C16'], make_scan('AdbDeviceTcp.__init__', 'AdbDeviceTcpAsync.__init__'),
          'AdbDeviceTcp(Async).__init__ have the same normal form')
framescan('C16/_open_bytesio/twin-normal-forms-equal', ['C16'], make_scan('_open_bytesio', '_open_bytesio'), '_open_bytesio yields the stream (R8)')


def unlisted_methods_equal(sources, twin):
    """Methods that exist in both classes but are not in the lists above (added later, e.g. an extracted helper) are paired by name and
    compared the same way.  A method that exists in one class only is not by itself a behavioural difference: its callers' normal forms
    differ then, and those pairs are decided by their shared contracts and call skeletons."""
    if twin != 'sync':
        return []
    ms, ma = sources.module('adb_device'), sources.module('adb_device_async')
    out = []
    for cs, ca, listed in (('_AdbIOManager', '_AdbIOManagerAsync', PAIRS_IO), ('AdbDevice', 'AdbDeviceAsync', PAIRS_DEV)):
        s_ = {k.split('.', 1)[1] for k in ms.funcs if k.startswith(cs + '.')}
        a_ = {k.split('.', 1)[1] for k in ma.funcs if k.startswith(ca + '.')}
        for n in sorted((s_ & a_) - set(listed)):
            x, xa = normal_form(ms.funcs[cs + '.' + n])
            y, ya = normal_form(ma.funcs[ca + '.' + n])
            if x != y or xa != ya:
                out.append('UNDECIDED: normal forms of %s.%s differ and the pair has no contract to decide it by' % (cs, n))
    return out


framescan('C16/<methods-added-later>/twin-normal-forms-equal', ['C16'], unlisted_methods_equal,
          'methods present in both classes but not listed are paired by name and compared the same way')


def wrapper_only_forwards(sources, twin):
    """R8 side condition: _AsyncBytesIO.read/write only forward to the wrapped BytesIO; R7: _DECODE_ERRORS is 'backslashreplace' under Python 3."""
    if twin != 'sync':
        return []
    ma, ms = sources.module('adb_device_async'), sources.module('adb_device')
    out = []
    want = {'_AsyncBytesIO.__init__': "self._bytesio = bytesio",
            '_AsyncBytesIO.read': "return self._bytesio.read(size)",
            '_AsyncBytesIO.write': "self._bytesio.write(data)"}
    for q, text in want.items():
        fn = ma.funcs.get(q)
        if fn is None:
            out.append('%s missing' % q)
            continue
        body = [s for s in fn.body if not (isinstance(s, ast.Expr) and isinstance(s.value, ast.Constant))]
        got = '; '.join(ast.unparse(s) for s in body)
        if got != text:
            out.append('%s is %r, expected %r' % (q, got, text))
    d = ms.assigns.get('_DECODE_ERRORS')
    if d is None or ast.unparse(d) != "'backslashreplace' if sys.version_info[0] > 2 else 'replace'":
        out.append('_DECODE_ERRORS changed: %s' % (ast.unparse(d) if d is not None else None))
    return out


framescan('C16/accepted-difference-side-conditions', ['C16'], wrapper_only_forwards, 'side conditions of rules R7 and R8', side_condition=True)
