"""Contracts for the FileSync layer of AdbDevice / AdbDeviceAsync  (C07 push, C08 pull, C09 list/stat, C10 failures, C04).

Two history logs tie the layers together:
  D_*(lid, i)   packets delivered to the reader of stream lid (defined by IOManager.read)
  FS_*(lid, j)  sync records returned by _filesync_read on stream lid (defined there):
                FS_id(lid, j), header words FS_w(lid, j, k), payload FS_data(lid, j)
  catD / catFS  concatenations of consecutive D_data / FS_data entries.
The *byte-level* contract of _filesync_read says which bytes of (receive buffer ++ later WRTE payloads) each record is made of,
for every placement of the WRTE boundaries; the *record-level* contracts of list / stat / pull / push are stated over FS_*.
"""
from pyvc.dsl import contract, klass
from contracts.device import (dev, LID, DI0, IO_MOD, RD_MOD, STREAM_OK, NOLOCK, RELEASED, MONO, exc_all, OKAYF, CLSEF, OP_REQ, AVAIL,
                              op_raises, NEXTID, OPEN_MOD, UNLOCKED)

FS = 'filesync_info'
FS_INV = ['{0}.send_idx >= 0 and {0}.send_idx <= len({0}.send_buffer) and len({0}.send_buffer) == {0}._maxdata'.format(FS)]
FS_MOD = [FS + '.send_idx', FS + '.send_buffer', FS + '.recv_buffer']
K = '(G.di[{0}] - {1})'.format(LID, DI0)                   # packets consumed on this stream by the call
ONLY_OUR_STREAM = 'G.di == store(old(G.di), {0}, G.di[{0}])'.format(LID)
FI0 = 'old(G.fi)[%s]' % LID
FS_EXC = ['AdbTimeoutError', 'InvalidCommandError', 'InvalidChecksumError', 'struct.error', '*']
SEND_KEPT = 'same({0}.send_buffer, old({0}.send_buffer)) and {0}._maxdata == old({0}._maxdata)'.format(FS)

# ---------------------------------------------------------------------------------------------------------------------
P0 = 'old(G.spos)[%s]' % LID
RINV = '{0}.recv_buffer == SB({1}, G.spos[{1}], G.sgot[{1}]) and G.spos[{1}] <= G.sgot[{1}] and isbytearray({0}.recv_buffer)'.format(FS, LID)
ONLY_OUR_SGOT = 'G.sgot == store(old(G.sgot), {0}, G.sgot[{0}])'.format(LID)
PENDING = 'old({0}.send_buffer)[:old({0}.send_idx)]'.format(FS)

contract('AdbDevice._filesync_flush',
         real=dev('_filesync_flush'),
         params={'self': 'obj:AdbDevice', 'adb_info': 'obj:AdbInfo', 'filesync_info': 'obj:FSInfo'},
         props=['C04', 'C07', 'C10', 'C12', 'C08', 'C09', 'C13'],
         requires=STREAM_OK + FS_INV + [RINV, NOLOCK],
         modifies=IO_MOD + RD_MOD + [FS + '.send_idx', FS + '.recv_buffer', 'G.sync_flushed'],
         ghost_exit=[('G.sync_flushed', 'store(G.sync_flushed, {0}, G.sync_flushed[{0}] + old({1}.send_buffer)[:old({1}.send_idx)])'.format(LID, FS))],
         ensures=[('C07', 'flushed-bytes-logged', 'G.sync_flushed == store(old(G.sync_flushed), {0}, old(G.sync_flushed)[{0}] + {1})'.format(LID, PENDING)),
                  ('C04,C07', 'one-WRTE-with-the-buffered-bytes-then-one-OKAY-per-device-WRTE-received-meanwhile',
                   'G.peer_rx == old(G.peer_rx) + frame(WRTE, adb_info.local_id, adb_info.remote_id, {0}) + rep({1}, {2} - 1)'.format(PENDING, OKAYF, K)),
                  ('C07', 'payload-within-maxdata', 'old({0}.send_idx) <= {0}._maxdata'.format(FS)),
                  ('C04', 'stop-and-wait-OKAY-received-before-returning', 'D_cmd({0}, G.di[{0}] - 1) == OKAY and {1} >= 1'.format(LID, K)),
                  ('C10,C08,C09', 'data-written-by-the-device-meanwhile-is-kept', RINV + ' and G.spos == old(G.spos)'),
                  ('C04,C08,C09', 'only-this-stream-advances', ONLY_OUR_STREAM + ' and ' + ONLY_OUR_SGOT),
                  ('C07', 'buffer-emptied', '{0}.send_idx == 0'.format(FS)),
                  RELEASED, MONO],
         raises=exc_all([RELEASED, MONO]),
         call_asserts={'AdbDevice._read_until': [
             ('C10,C08,C09', 'no-data-bearing-packet-is-dropped-while-waiting-for-the-OKAY', 'WRTE in _arg_expected_cmds')]},
         loops={0: dict(invariant=[
             ('C04,C07,C10,C08,C09', '{0}.recv_buffer == SB({1}, G.spos[{1}], G.sgot[{1}]) and isbytearray({0}.recv_buffer) and G.spos[{1}] <= G.sgot[{1}]'.format(FS, LID)),
             ('C04,C07,C10,C08,C09', 'G.spos == old(G.spos) and %s >= 0 and %s and %s' % (K, ONLY_OUR_STREAM, ONLY_OUR_SGOT)),
             ('C04,C07', 'G.peer_rx == old(G.peer_rx) + frame(WRTE, adb_info.local_id, adb_info.remote_id, {0}) + rep({1}, {2})'.format(PENDING, OKAYF, K)),
             ('C04,C07,C10,C12,C08,C09', UNLOCKED), ('C04,C07,C10,C08,C09', MONO + ' and G.rpos >= 0'),
             ('C04,C07', '{0}.send_idx == old({0}.send_idx)'.format(FS)),
         ])},
         doc='sends the buffered sync bytes as one WRTE (<= maxdata) and waits for its OKAY, keeping (and acknowledging) what the device writes meanwhile')

contract('AdbDevice._filesync_read_buffered',
         real=dev('_filesync_read_buffered'),
         params={'self': 'obj:AdbDevice', 'size': 'int', 'adb_info': 'obj:AdbInfo', 'filesync_info': 'obj:FSInfo'},
         returns='bytearray',
         props=['C08', 'C09', 'C04', 'C10', 'C12', 'C13'],
         requires=STREAM_OK + ['size >= 0', RINV, NOLOCK],
         modifies=IO_MOD + RD_MOD + [FS + '.recv_buffer', 'G.spos'],
         ghost_exit=[('G.spos', 'store(G.spos, {0}, G.spos[{0}] + size)'.format(LID))],
         ensures=[('C08,C09', 'exactly-the-next-size-bytes-of-the-sync-stream', 'result == SB({0}, {1}, {1} + size)'.format(LID, P0)),
                  ('C08,C09', 'cursor-advances-by-size', 'G.spos == store(old(G.spos), {0}, {1} + size)'.format(LID, P0)),
                  ('C08,C09', 'rest-stays-buffered', RINV),
                  ('C08,C09', 'waits-for-no-more-packets-than-needed', '{3} == 0 or G.sgot[{1}] - len(D_data({1}, G.di[{1}] - 1)) - {2} < size'.format(FS, LID, P0, K)),
                  ('C04', 'one-OKAY-per-WRTE-consumed', 'G.peer_rx == old(G.peer_rx) + rep(%s, %s)' % (OKAYF, K)),
                  ('C08,C09,C04', 'only-this-stream-advances', ONLY_OUR_STREAM + ' and ' + ONLY_OUR_SGOT + ' and %s >= 0' % K),
                  RELEASED, MONO],
         raises=exc_all([RELEASED, MONO]),
         loops={0: dict(invariant=[
             ('C08,C09,C04', '{0}.recv_buffer == SB({1}, {2}, G.sgot[{1}]) and isbytearray({0}.recv_buffer) and {2} <= G.sgot[{1}]'.format(FS, LID, P0)),
             ('C08,C09,C04', 'G.spos == old(G.spos)'),
             ('C08,C09', '{3} == 0 or G.sgot[{1}] - len(D_data({1}, G.di[{1}] - 1)) - {2} < size'.format(FS, LID, P0, K)),
             ('C08,C09,C04', '%s >= 0 and %s and %s' % (K, ONLY_OUR_STREAM, ONLY_OUR_SGOT)),
             ('C04', 'G.peer_rx == old(G.peer_rx) + rep(%s, %s)' % (OKAYF, K)),
             ('C08,C09,C04,C12', UNLOCKED), ('C08,C09,C04', MONO + ' and G.rpos >= 0'),
         ])},
         doc='receive-buffer invariant over arbitrary WRTE boundaries: buffer == sync stream[consumed : received]; returns the next `size` bytes')

HS_ = FS + '.recv_message_size'
B = '(old({0}.recv_buffer) + catD({1}, {2}, {3}))'.format(FS, LID, 'DISTART', K)


def fs_read_returns(ex, bound):
    import z3
    fmt = bound['filesync_info'].fields['recv_message_format'].concrete()
    nw = {b'<2I': 2, b'<4I': 4, b'<5I': 5}[fmt]
    exp = bound['expected_ids']
    stat_possible = not z3.is_false(z3.simplify(exp.bits[b'STAT']))
    only_stat = stat_possible and all(z3.is_false(z3.simplify(b)) for k, b in exp.bits.items() if k != b'STAT')
    if only_stat:
        shape_stat = True
    elif not stat_possible:
        shape_stat = False
    else:
        shape_stat = ex.choose('filesync-record-is-STAT')
    bound['__shape_stat'] = shape_stat
    if shape_stat:
        return 'tuple[bytes,tuple[%s],none]' % ','.join(['int'] * (nw - 1))
    return 'tuple[bytes,tuple[%s],bytearray]' % ','.join(['int'] * (nw - 2))


FI = 'old(G.fi)[%s]' % LID
HSZ = FS + '.recv_message_size'


def SBW(i):
    """the i-th little-endian word of the record that starts at the old cursor"""
    return 'unle32(SB({0}, {1} + 4 * ({2}), {1} + 4 * ({2}) + 4))'.format(LID, P0, i)


NWORDS = '(%s // 4)' % HSZ
LASTW = SBW(NWORDS + ' - 1')
REC_ID = 'FILESYNC_WIRE_TO_ID[%s]' % SBW(0)
REC_HAS_DATA = '(%s != STAT)' % REC_ID
REC_LEN = '({0} + ite({1}, {2}, 0))'.format(HSZ, REC_HAS_DATA, LASTW)
REC_DATA = 'SB({0}, {1} + {2}, {1} + {2} + {3})'.format(LID, P0, HSZ, LASTW)
BUF = None

FSREAD_VARIANTS = [{'filesync_info.recv_message_format': "lit:b'<2I'", 'filesync_info.recv_message_size': 'lit:8'},
                   {'filesync_info.recv_message_format': "lit:b'<4I'", 'filesync_info.recv_message_size': 'lit:16'},
                   {'filesync_info.recv_message_format': "lit:b'<5I'", 'filesync_info.recv_message_size': 'lit:20'}]

contract('AdbDevice._filesync_read',
         real=dev('_filesync_read'),
         params={'self': 'obj:AdbDevice', 'expected_ids': 'cmdset', 'adb_info': 'obj:AdbInfo', 'filesync_info': 'obj:FSInfo'},
         variants=FSREAD_VARIANTS,
         returns=fs_read_returns,
         props=['C08', 'C09', 'C10', 'C07', 'C04', 'C12', 'C13'],
         requires=STREAM_OK + FS_INV + [RINV, NOLOCK],
         modifies=IO_MOD + RD_MOD + FS_MOD + ['G.fi', 'G.spos', 'G.sync_flushed'],
         ghost_exit=[('G.fi', 'store(G.fi, {0}, G.fi[{0}] + 1)'.format(LID))],
         defines=['result[0] == FS_id({0}, {1})'.format(LID, FI),
                  'implies(result[0] != STAT and not isnone(result[2]), same(result[2], FS_data({0}, {1})))'.format(LID, FI),
                  'implies(len(result[1]) >= 1, result[1][0] == FS_w({0}, {1}, 1))'.format(LID, FI),
                  'implies(len(result[1]) >= 2, result[1][1] == FS_w({0}, {1}, 2))'.format(LID, FI),
                  'implies(len(result[1]) >= 3, result[1][2] == FS_w({0}, {1}, 3))'.format(LID, FI),
                  'implies(len(result[1]) >= 4, result[1][3] == FS_w({0}, {1}, 4))'.format(LID, FI)],
         ensures=[('C08,C09,C10', 'one-record-logged', 'G.fi == store(old(G.fi), {0}, {1} + 1)'.format(LID, FI)),
                  ('C07,C04', 'pending-output-flushed-first', '{0}.send_idx == 0 and {1}'.format(FS, SEND_KEPT)),
                  ('C07', 'flushed-bytes-logged', 'G.sync_flushed == store(old(G.sync_flushed), {0}, old(G.sync_flushed)[{0}] + '
                                                  'old({1}.send_buffer)[:old({1}.send_idx)])'.format(LID, FS)),
                  ('C08,C09,C10', 'record-id-from-first-header-word', '%s in FILESYNC_WIRE_TO_ID and result[0] == %s' % (SBW(0), REC_ID)),
                  ('C08,C09,C10', 'id-is-expected', 'result[0] in expected_ids'),
                  ('C08,C09', 'header-words-in-order',
                   'implies(len(result[1]) >= 1, result[1][0] == {0}) and implies(len(result[1]) >= 2, result[1][1] == {1}) '
                   'and implies(len(result[1]) >= 3, result[1][2] == {2}) and implies(len(result[1]) >= 4, result[1][3] == {3})'.format(SBW(1), SBW(2), SBW(3), SBW(4))),
                  ('C08,C09', 'header-word-count', 'len(result[1]) == %s - ite(result[0] == STAT, 1, 2)' % NWORDS),
                  ('C08,C09,C10', 'payload-is-the-announced-number-of-bytes-after-the-header',
                   'ite(result[0] == STAT, isnone(result[2]), same(result[2], asbytearray(%s)))' % REC_DATA),
                  ('C08,C09', 'cursor-advances-by-exactly-one-record', 'G.spos == store(old(G.spos), {0}, {1} + {2})'.format(LID, P0, REC_LEN)),
                  ('C08,C09', 'rest-of-stream-stays-buffered', RINV),
                  ('C08,C09,C04', 'only-this-stream-advances', ONLY_OUR_STREAM + ' and ' + ONLY_OUR_SGOT),
                  RELEASED, MONO],
         raises=dict(exc_all([RELEASED, MONO], FS_EXC),
                     **{'AdbCommandFailureException': [('C10', 'device-reported-FAIL-and-FAIL-was-not-expected',
                                                        '%s == FAIL and not (FAIL in expected_ids)' % REC_ID),
                                                       ('C10', 'carries-the-devices-message-decoded-without-raising',
                                                        "exc.payload == ('Command failed: {}', dec_bsr(%s))" % REC_DATA),
                                                       RELEASED, MONO],
                        'InvalidResponseError': [('C10', 'valid-id-but-not-expected-here',
                                                  '{0} in FILESYNC_WIRE_TO_ID and not ({1} in expected_ids) and {1} != FAIL'.format(SBW(0), REC_ID)),
                                                 RELEASED, MONO],
                        'KeyError': [('C10', 'unknown-record-id-only', 'not (%s in FILESYNC_WIRE_TO_ID)' % SBW(0)), RELEASED, MONO]}),
         doc='flushes pending output, then takes exactly one sync record off (receive buffer ++ later WRTE payloads)')


# ---------------------------------------------------------------------------------------------------------------------
# sending side: _filesync_send, max_chunk_size  (C07)

FS_INV_S = FS_INV + ['{0}.recv_message_size >= 8'.format(FS)]
OLD_PENDING = 'old({0}.send_buffer)[:old({0}.send_idx)]'.format(FS)

contract('AdbDevice.max_chunk_size',
         real=dev('max_chunk_size'),
         params={'self': 'obj:AdbDevice'}, returns='int', props=['C07'], pure=True,
         ensures=[('C07', 'min-of-64KiB-and-half-maxdata-else-legacy',
                   'result == ite(ite(self._maxdata // 2 < 65536, self._maxdata // 2, 65536) != 0, ite(self._maxdata // 2 < 65536, self._maxdata // 2, 65536), 2048)'),
                  ('C07', 'fits-a-WRITE-with-its-header-for-every-negotiable-maxdata',
                   'implies(self._maxdata >= 4096 and self._maxdata <= 2**20, result >= 1 and result <= 65536 and 8 + result < self._maxdata)')])

contract('AdbDevice._filesync_send',
         real=dev('_filesync_send'),
         params={'self': 'obj:AdbDevice', 'command_id': 'bytes', 'adb_info': 'obj:AdbInfo', 'filesync_info': 'obj:FSInfo', 'data': 'bytes',
                 'size': 'opt[int]'},
         variants=[{'data': 'bytes'}, {'data': 'str'}],
         props=['C07', 'C04', 'C12', 'C13'],
         requires=STREAM_OK + FS_INV_S + [RINV, 'command_id in FILESYNC_ID_TO_WIRE',
                                          ('C07', 'record-fits-the-send-buffer', '8 + len(utf8(data)) <= {0}._maxdata'.format(FS)), NOLOCK],
         modifies=IO_MOD + RD_MOD + FS_MOD + ['G.sync_out', 'G.sync_flushed', 'G.nsync', 'G.pushed'],
         lets=[('PAY', 'utf8(data)'),
               ('SZ', 'ite(isnone(size), len(utf8(data)), val(size))'),
               ('FLUSH', 'not (old({0}.send_idx) + old({0}.recv_message_size) + len(utf8(data)) < old({0}._maxdata))'.format(FS))],
         ghost_exit=[('G.sync_out', 'store(G.sync_out, {0}, G.sync_out[{0}] + le32(FILESYNC_ID_TO_WIRE[command_id]) + '
                                    'le32(ite(isnone(size), len(utf8(data)), val(size))) + utf8(data))'.format(LID)),
                     ('G.nsync', 'store(G.nsync, {0}, G.nsync[{0}] + 1)'.format(LID)),
                     ('G.pushed', 'store(G.pushed, {0}, G.pushed[{0}] + ite(command_id == DATA, utf8(data), b""))'.format(LID))],
         ensures=[('C07', 'size-field-in-range', 'SZ >= 0 and SZ < 2**32'),
                  ('C07', 'send-buffer-never-grows', 'len({0}.send_buffer) == old(len({0}.send_buffer)) and {0}._maxdata == old({0}._maxdata)'.format(FS)),
                  ('C07', 'record-appended-after-pending-bytes-or-after-a-flush',
                   '{0}.send_buffer[:{0}.send_idx] == ite(FLUSH, b"", {1}) + le32(FILESYNC_ID_TO_WIRE[command_id]) + le32(SZ) + PAY'.format(FS, OLD_PENDING)),
                  ('C07', 'index-after-the-record', '{0}.send_idx == ite(FLUSH, 0, old({0}.send_idx)) + 8 + len(PAY)'.format(FS)),
                  ('C07,C04', 'at-most-one-flush-of-exactly-the-pending-bytes',
                   'G.peer_rx == old(G.peer_rx) + ite(FLUSH, frame(WRTE, adb_info.local_id, adb_info.remote_id, {0}) + rep({1}, {2} - 1), b"")'.format(OLD_PENDING, OKAYF, K)),
                  ('C07', 'sync-stream-log', 'G.sync_out == store(old(G.sync_out), {0}, old(G.sync_out)[{0}] + le32(FILESYNC_ID_TO_WIRE[command_id]) + le32(SZ) + PAY) '
                                             'and G.sync_flushed == store(old(G.sync_flushed), {0}, old(G.sync_flushed)[{0}] + ite(FLUSH, {1}, b""))'.format(LID, OLD_PENDING)),
                  ('C07', 'record-count-and-payload-log', 'G.nsync == store(old(G.nsync), {0}, old(G.nsync)[{0}] + 1) and '
                                                          'G.pushed == store(old(G.pushed), {0}, old(G.pushed)[{0}] + ite(command_id == DATA, PAY, b""))'.format(LID)),
                  ('C04', 'flush-waits-for-its-OKAY', 'implies(not FLUSH, G.di == old(G.di) and G.sgot == old(G.sgot)) and '
                                                      'implies(FLUSH, D_cmd({0}, G.di[{0}] - 1) == OKAY and {1} >= 1)'.format(LID, K)),
                  ('C08,C09,C10', 'sync-input-stays-buffered', RINV + ' and G.spos == old(G.spos) and ' + ONLY_OUR_STREAM + ' and ' + ONLY_OUR_SGOT),
                  RELEASED, MONO],
         raises=dict(exc_all([RELEASED, MONO]), **{'struct.error': [RELEASED, MONO]}),
         doc='packs one sync record into the send buffer, flushing first iff it would not fit strictly below maxdata')


# ---------------------------------------------------------------------------------------------------------------------
# stat, list  (C09)

D_MAXDATA = 'self._maxdata >= 4096 and self._maxdata <= 2**20'           # device assumption D-MAXDATA (the range in the property)
D_PATH = 'len(utf8(device_path)) <= 1024'
NLID = NEXTID
S0 = 'old(G.sgot)[%s]' % NLID          # sync bytes received on the new stream before it is opened (its reader starts there)
F0N = 'old(G.fi)[%s]' % NLID
FS_OP_MOD = OPEN_MOD + ['G.fi', 'G.sync_out', 'G.sync_flushed', 'G.nsync', 'G.pushed']
BAD_PATH = [('C13', 'only-for-an-empty-path', 'len(utf8(device_path)) == 0'),
            ('C13', 'not-a-byte-written', 'G.wire == old(G.wire) and G.nwrites == old(G.nwrites)'),
            ('C13', 'no-local-file-created', 'G.files_opened == old(G.files_opened)'),
            ('C13', 'nothing-read-no-stream-opened', 'G.rpos == old(G.rpos) and self._local_id == old(self._local_id) and G.di == old(G.di)'),
            RELEASED, MONO]
FS_FAIL = [('AdbCommandFailureException', [RELEASED, MONO]), ('InvalidResponseError', [RELEASED, MONO]), ('KeyError', [RELEASED, MONO]),
           ('DevicePathInvalidError', BAD_PATH)]
ONLY_NEW_STREAM = ('G.di == store(old(G.di), {0}, G.di[{0}]) and G.fi == store(old(G.fi), {0}, G.fi[{0}]) and '
                   'G.sgot == store(old(G.sgot), {0}, G.sgot[{0}]) and G.spos == store(old(G.spos), {0}, G.spos[{0}])').format(NLID)

contract('AdbDevice.stat',
         real=dev('stat'),
         params={'self': 'obj:AdbDevice', 'device_path': 'str', 'transport_timeout_s': 'opt[real]', 'read_timeout_s': 'real'},
         returns='tuple[int,int,int]',
         props=['C09', 'C13', 'C04', 'C12'],
         requires=OP_REQ + [D_MAXDATA, D_PATH],
         modifies=FS_OP_MOD,
         ensures=[AVAIL, ('C13', 'path-not-empty', 'len(utf8(device_path)) > 0'),
                  ('C09', 'exact-triple-of-the-STAT-record', 'FS_id({0}, {1}) == STAT and result == (FS_w({0}, {1}, 1), FS_w({0}, {1}, 2), FS_w({0}, {1}, 3))'.format(NLID, F0N)),
                  ('C09', 'the-STAT-record-is-the-first-16-sync-bytes-however-packetised',
                   'result == (unle32(SB({0}, {1} + 4, {1} + 8)), unle32(SB({0}, {1} + 8, {1} + 12)), unle32(SB({0}, {1} + 12, {1} + 16)))'.format(NLID, S0)),
                  ('C09,C04', 'stream-closed-afterwards', 'D_cmd({0}, G.di[{0}] - 1) == CLSE'.format(NLID)),
                  ('C09', 'one-record-read', 'G.fi == store(old(G.fi), {0}, {1} + 1)'.format(NLID, F0N)),
                  ('C09,C08', 'only-the-new-stream-advances', ONLY_NEW_STREAM),
                  ('C14', 'stream-id', 'self._local_id == %s' % NLID),
                  RELEASED, MONO],
         raises=op_raises(FS_FAIL))

contract('AdbDevice.list',
         real=dev('list'),
         params={'self': 'obj:AdbDevice', 'device_path': 'str', 'transport_timeout_s': 'opt[real]', 'read_timeout_s': 'real'},
         returns='list[tuple[bytearray,int,int,int]]',
         locals={'files': 'list[tuple[bytearray,int,int,int]]'},
         props=['C09', 'C13', 'C04', 'C12'],
         requires=OP_REQ + [D_MAXDATA, D_PATH],
         modifies=FS_OP_MOD,
         ensures=[AVAIL, ('C13', 'path-not-empty', 'len(utf8(device_path)) > 0'),
                  ('C09', 'one-entry-per-DENT-record-before-DONE', 'len(result) == G.fi[{0}] - {1} - 1 and FS_id({0}, G.fi[{0}] - 1) == DONE'.format(NLID, F0N)),
                  ('C09', 'entries-carry-the-exact-name-mode-size-mtime-in-order', 'dents_are(result, {0}, {1}, len(result))'.format(NLID, F0N)),
                  ('C09,C04', 'stream-closed-afterwards', 'D_cmd({0}, G.di[{0}] - 1) == CLSE'.format(NLID)),
                  ('C14', 'stream-id', 'self._local_id == %s' % NLID),
                  RELEASED, MONO],
         raises=op_raises(FS_FAIL),
         loops={0: dict(invariant=[
             ('C09,C04,C12', 'not isnone(adb_info.local_id) and val(adb_info.local_id) == {0} and not isnone(adb_info.remote_id)'.format(NLID)),
             ('C09', 'len(files) == G.fi[{0}] - {1} and G.fi[{0}] >= {1}'.format(NLID, F0N)),
             ('C09', 'dents_are(files, {0}, {1}, len(files))'.format(NLID, F0N)),
             ('C09', 'G.fi == store(old(G.fi), {0}, G.fi[{0}])'.format(NLID)),
             ('C09,C04', FS_INV_S[0] + ' and ' + FS_INV_S[1]),
             ('C09,C04', RINV.replace(LID, NLID)),
             ('C09,C04', "{0}.recv_message_format == b'<5I' and {0}.recv_message_size == 20".format(FS)),
             ('C09,C04,C12', UNLOCKED), ('C09,C04', MONO + ' and G.rpos >= 0'),
             ('C09', 'old(self._available) and len(utf8(device_path)) > 0 and self._local_id == %s' % NLID),
         ])},
         doc='the inlined _filesync_read_until generator reads one record per iteration; DENT records become entries, DONE ends the listing')


# ---------------------------------------------------------------------------------------------------------------------
# local files and callbacks (assumed library / user-code contracts)

contract('FileW.write', trusted=True,
         params={'self': 'opaque:FileW', 'data': 'bytes'},
         modifies=['G.fout', 'G.now'],
         ensures=['G.fout == old(G.fout) + data', 'G.now >= old(G.now)'],
         raises={'*': ['G.now >= old(G.now)']})

contract('FileR.read', trusted=True,
         params={'self': 'opaque:FileR', 'size': 'int'}, returns='bytes', defaults={'size': '0 - 1'},
         modifies=['G.fpos', 'G.now'],
         ensures=['len(result) <= ite(size > 0, size, len(G.fin))', 'result == G.fin[old(G.fpos):old(G.fpos) + len(result)]',
                  'G.fpos == old(G.fpos) + len(result) and G.fpos <= len(G.fin)', '(len(result) == 0) == (old(G.fpos) == len(G.fin))',
                  'implies(size < 0, G.fpos == len(G.fin))', 'implies(size < 0 and old(G.fpos) == 0, result == G.fin)', 'G.now >= old(G.now)'],
         raises={'*': ['G.now >= old(G.now)', 'G.fpos >= old(G.fpos) and G.fpos <= len(G.fin)']},
         doc='a regular file or BytesIO opened for reading: any 1..size bytes, empty only at end of file')

contract('FileR.fileno', trusted=True,
         params={'self': 'opaque:FileR'}, returns='int', modifies=[],
         ensures=['result >= 0'], raises={})

contract('MemR.read', trusted=True,
         params={'self': 'opaque:MemR', 'size': 'int'}, returns='bytes',
         modifies=['G.fpos', 'G.now'],
         ensures=['len(result) <= ite(size > 0, size, len(G.fin))', 'result == G.fin[old(G.fpos):old(G.fpos) + len(result)]',
                  'G.fpos == old(G.fpos) + len(result) and G.fpos <= len(G.fin)', '(len(result) == 0) == (old(G.fpos) == len(G.fin))',
                  'G.now >= old(G.now)'],
         raises={})

contract('MemR.fileno', trusted=True,
         params={'self': 'opaque:MemR'}, returns='int', modifies=[],
         requires=['False'],
         ensures=['False'], raises={'io.UnsupportedOperation': []},
         doc='io.BytesIO.fileno() always raises io.UnsupportedOperation')

contract('ProgressCallback.__call__', trusted=True,
         params={'self': 'opaque:ProgressCallback', 'device_path': 'str', 'bytes_written': 'int', 'total_bytes': 'int'},
         modifies=['G.cb_bytes', 'G.now'],
         ensures=['G.cb_bytes == old(G.cb_bytes) + bytes_written', 'G.now >= old(G.now)'],
         raises={'*': ['G.cb_bytes == old(G.cb_bytes) + bytes_written', 'G.now >= old(G.now)']},
         doc='user code: may raise anything; does not touch the device (A-CALLBACK)')

# ---------------------------------------------------------------------------------------------------------------------
# pull  (C08, C10)

F1 = 'old(G.fi)[%s]' % LID
PULLED = '(G.fi[{0}] - {1} - 1)'.format(LID, F1)
PULL_FS_MOD = IO_MOD + RD_MOD + FS_MOD + ['G.fi', 'G.spos', 'G.sync_out', 'G.sync_flushed', 'G.nsync', 'G.pushed', 'G.fout', 'G.cb_bytes', 'self._local_id']
FS_RD_FAIL = [('AdbCommandFailureException', [RELEASED, MONO]), ('InvalidResponseError', [RELEASED, MONO]), ('KeyError', [RELEASED, MONO])]

contract('AdbDevice._pull',
         real=dev('_pull'),
         params={'self': 'obj:AdbDevice', 'device_path': 'str', 'stream': 'opaque:FileW', 'progress_callback': 'opt[opaque:ProgressCallback]',
                 'adb_info': 'obj:AdbInfo', 'filesync_info': 'obj:FSInfo'},
         locals={'total_bytes': 'int'},
         variants=[FSREAD_VARIANTS[0]],
         props=['C08', 'C10', 'C04', 'C12'],
         requires=STREAM_OK + FS_INV_S + [RINV, "{0}.recv_message_format == b'<2I' and {0}.recv_message_size == 8".format(FS), D_MAXDATA, D_PATH,
                                          '{0}._maxdata == self._maxdata'.format(FS),
                                          'self._local_id >= 1 and self._local_id < 2**32 and val(adb_info.local_id) == self._local_id',
                                          'self._available and len(utf8(device_path)) > 0', NOLOCK],
         modifies=PULL_FS_MOD,
         ensures=[('C08', 'writes-exactly-the-DATA-payloads-in-order', 'G.fout == old(G.fout) + catFS({0}, {1}, {2}) and {2} >= 0'.format(LID, F1, PULLED)),
                  ('C08', 'stops-at-DONE', 'FS_id({0}, G.fi[{0}] - 1) == DONE'.format(LID)),
                  ('C08', 'callback-sees-byte-counts-summing-to-the-size',
                   'implies(not isnone(progress_callback), G.cb_bytes - old(G.cb_bytes) == len(G.fout) - len(old(G.fout)))'),
                  ('C08', 'no-callback-no-calls', 'implies(isnone(progress_callback), G.cb_bytes == old(G.cb_bytes))'),
                  RELEASED, MONO],
         raises=dict(exc_all([RELEASED, MONO]), **dict(FS_RD_FAIL)),
         loops={0: dict(invariant=[
             ('C08', 'G.fout == old(G.fout) + catFS({0}, {1}, G.fi[{0}] - {1}) and G.fi[{0}] >= {1}'.format(LID, F1)),
             ('C08', 'implies(not isnone(progress_callback), G.cb_bytes - old(G.cb_bytes) == len(G.fout) - len(old(G.fout)))'),
             ('C08', 'implies(isnone(progress_callback), G.cb_bytes == old(G.cb_bytes))'),
             ('C08,C04', FS_INV_S[0] + ' and ' + FS_INV_S[1]),
             ('C08,C04', RINV),
             ('C08,C04,C12', UNLOCKED), ('C08,C04', MONO + ' and G.rpos >= 0'),
         ])},
         doc='RECV request, then one DATA record per iteration written to the destination, until DONE; callback failures are swallowed')

klass('_BytesIO', {'_bytesio': 'opaque:Mem'}, real={'async': 'adb_device_async:_AsyncBytesIO'})

contract('Mem.write', trusted=True,
         params={'self': 'opaque:Mem', 'data': 'bytes'},
         modifies=['G.fout', 'G.now'],
         ensures=['G.fout == old(G.fout) + data', 'G.now >= old(G.now)'], raises={})

contract('Mem.read', trusted=True,
         params={'self': 'opaque:Mem', 'size': 'int'}, returns='bytes',
         modifies=['G.fpos', 'G.now'],
         ensures=['len(result) <= ite(size > 0, size, len(G.fin))', 'result == G.fin[old(G.fpos):old(G.fpos) + len(result)]',
                  'G.fpos == old(G.fpos) + len(result) and G.fpos <= len(G.fin)', '(len(result) == 0) == (old(G.fpos) == len(G.fin))',
                  'G.now >= old(G.now)'],
         raises={})

contract('Mem.getbuffer', trusted=True,
         params={'self': 'opaque:Mem'}, returns='bytes', modifies=[],
         ensures=['result == G.fin'], raises={},
         doc='io.BytesIO.getbuffer(): a view of the whole content')

contract('Mem.fileno', trusted=True,
         params={'self': 'opaque:Mem'}, returns='int', modifies=[],
         requires=[], ensures=['False'], raises={'io.UnsupportedOperation': []},
         doc='io.BytesIO.fileno() always raises io.UnsupportedOperation')

PULL_TOP_MOD = FS_OP_MOD + ['G.fout', 'G.cb_bytes', 'G.files_opened']
NF1 = 'old(G.fi)[%s]' % NLID

contract('AdbDevice.pull',
         real=dev('pull'),
         params={'self': 'obj:AdbDevice', 'device_path': 'str', 'local_path': 'str', 'progress_callback': 'opt[opaque:ProgressCallback]',
                 'transport_timeout_s': 'opt[real]', 'read_timeout_s': 'real'},
         variants=[{'local_path': 'str'}, {'local_path': 'opaque:Mem'}],
         props=['C08', 'C10', 'C13', 'C04', 'C12'],
         requires=OP_REQ + [D_MAXDATA, D_PATH],
         modifies=PULL_TOP_MOD,
         ensures=[AVAIL, ('C13', 'path-not-empty', 'len(utf8(device_path)) > 0'),
                  ('C08', 'destination-receives-exactly-the-DATA-payloads-in-order',
                   'G.fout == old(G.fout) + catFS({0}, {1}, G.fi[{0}] - {1} - 1) and FS_id({0}, G.fi[{0}] - 1) == DONE'.format(NLID, NF1)),
                  ('C08,C04', 'stream-closed-afterwards', 'D_cmd({0}, G.di[{0}] - 1) == CLSE'.format(NLID)),
                  ('C08', 'opens-the-destination-once-if-it-is-a-path', 'G.files_opened == old(G.files_opened) + ite(isstr(local_path), 1, 0)'),
                  RELEASED, MONO],
         raises=op_raises(FS_FAIL + [('OSError', [RELEASED, ('C13', 'was-available', 'old(self._available)')])]),
         doc='path checks first, destination opened wb, _pull, and _clse on every exit of _pull (try/finally)')


# ---------------------------------------------------------------------------------------------------------------------
# push  (C07, C10)

NS = 'G.nsync[%s]' % LID
NS0 = 'old(G.nsync)[%s]' % LID
PUSH_MOD = IO_MOD + RD_MOD + FS_MOD + ['G.fi', 'G.spos', 'G.sync_out', 'G.sync_flushed', 'G.nsync', 'G.pushed', 'G.fpos', 'G.cb_bytes']
SENT_ALL = 'G.pushed[{0}] == old(G.pushed)[{0}] + G.fin[old(G.fpos):]'.format(LID)
PUSH_PRE = STREAM_OK + FS_INV_S + [RINV, D_MAXDATA, D_PATH, '{0}._maxdata == self._maxdata'.format(FS), '{0}.send_idx == 0'.format(FS),
                                   'st_mode >= 0 and st_mode < 2**32', 'mtime >= 0 and mtime < 2**32',
                                   'G.fpos >= 0 and G.fpos <= len(G.fin)', 'G.sync_flushed[{0}] == G.sync_out[{0}]'.format(LID), NOLOCK]

contract('AdbDevice._push',
         real=dev('_push'),
         params={'self': 'obj:AdbDevice', 'stream': 'opaque:FileR', 'device_path': 'str', 'st_mode': 'int', 'mtime': 'int',
                 'progress_callback': 'opt[opaque:ProgressCallback]', 'adb_info': 'obj:AdbInfo', 'filesync_info': 'obj:FSInfo'},
         variants=[dict(FSREAD_VARIANTS[0], stream='opaque:FileR'), dict(FSREAD_VARIANTS[0], stream='opaque:Mem', __twin__='sync'),
                   dict(FSREAD_VARIANTS[0], stream='obj:_BytesIO', __twin__='async')],
         locals={'total_bytes': 'int'},
         props=['C07', 'C10', 'C04', 'C12'],
         escape_props=['C07', 'C10'],
         requires=PUSH_PRE,
         modifies=PUSH_MOD,
         ensures=[('C07', 'DATA-chunks-concatenate-to-exactly-the-source-content', SENT_ALL + ' and G.fpos == len(G.fin)'),
                  ('C07', 'one-SEND-then-DATA-records-then-one-DONE', '{0} >= {1} + 2'.format(NS, NS0)),
                  ('C07', 'everything-was-flushed-to-the-device', '{0}.send_idx == 0 and G.sync_flushed[{1}] == G.sync_out[{1}]'.format(FS, LID)),
                  ('C07,C10', 'returns-normally-only-after-the-devices-sync-OKAY', 'FS_id({0}, G.fi[{0}] - 1) == OKAY and G.fi[{0}] >= {1} + 1'.format(LID, F1)),
                  ('C07', 'callback-sees-byte-counts-summing-to-the-size',
                   'implies(not isnone(progress_callback), G.cb_bytes - old(G.cb_bytes) == len(G.fin) - old(G.fpos))'),
                  ('C07', 'no-callback-no-calls', 'implies(isnone(progress_callback), G.cb_bytes == old(G.cb_bytes))'),
                  RELEASED, MONO],
         # a FAIL from the device surfaces from a push as PushFailedError only: AdbCommandFailureException is deliberately NOT in this clause
         raises=dict(exc_all([RELEASED, MONO]),
                     **dict(FS_RD_FAIL[1:] + [('PushFailedError', [('C10', 'device-answered-FAIL-at-the-status-point', 'FS_id({0}, G.fi[{0}] - 1) == FAIL'.format(LID)),
                                                               ('C10', 'carries-the-devices-message', 'same(exc.payload, FS_data({0}, G.fi[{0}] - 1))'.format(LID)),
                                                               RELEASED, MONO]),
                                          ('OSError', [RELEASED, MONO])])),
         call_asserts={'AdbDevice._filesync_send': [
             ('C07', 'first-record-is-SEND-path,mode',
              'implies({0} == {1}, _arg_command_id == SEND and same(_arg_data, utf8(device_path) + b"," + decimal(st_mode)) and isnone(_arg_size))'.format(NS, NS0)),
             ('C07', 'SEND-only-first', 'implies(_arg_command_id == SEND, {0} == {1})'.format(NS, NS0)),
             ('C07', 'DATA-chunks-are-1..64KiB-of-consecutive-source-bytes',
              'implies({0} > {1} and _arg_command_id != DONE, _arg_command_id == DATA and len(_arg_data) >= 1 and len(_arg_data) <= 65536 '
              'and same(_arg_data, G.fin[G.fpos - len(_arg_data):G.fpos]) and isnone(_arg_size))'.format(NS, NS0)),
             ('C07', 'DONE-after-the-whole-source-carrying-mtime-or-the-current-time',
              'implies(_arg_command_id == DONE, G.fpos == len(G.fin) and len(_arg_data) == 0 and not isnone(_arg_size) and {0} > {1} and '
              'ite(_0mtime != 0, val(_arg_size) == _0mtime, val(_arg_size) <= G.now and val(_arg_size) > old(G.now) - 1))'.format(NS, NS0))]},
         loops={0: dict(invariant=[
             ('C07', 'G.pushed[{0}] == old(G.pushed)[{0}] + G.fin[old(G.fpos):G.fpos] and G.fpos >= old(G.fpos) and G.fpos <= len(G.fin)'.format(LID)),
             ('C07', '{0} >= {1} + 1'.format(NS, NS0)),
             ('C07', 'implies(not isnone(progress_callback), G.cb_bytes - old(G.cb_bytes) == G.fpos - old(G.fpos))'),
             ('C07', 'implies(isnone(progress_callback), G.cb_bytes == old(G.cb_bytes))'),
             ('C07', 'G.sync_flushed[{1}] + {0}.send_buffer[:{0}.send_idx] == G.sync_out[{1}]'.format(FS, LID)),
             ('C07,C04', FS_INV_S[0] + ' and ' + FS_INV_S[1] + ' and {0}._maxdata == self._maxdata'.format(FS)),
             ('C07,C04', RINV), ('C07', 'mtime == _0mtime and G.fi == old(G.fi)'),
             ('C07,C04,C12', UNLOCKED), ('C07,C04', MONO + ' and G.rpos >= 0'),
         ]),
             1: dict(invariant=[('C07,C10', SENT_ALL + ' and G.fpos == len(G.fin)'), ('C07', '{0} >= {1} + 2'.format(NS, NS0)),
                                ('C07', 'implies(not isnone(progress_callback), G.cb_bytes - old(G.cb_bytes) == len(G.fin) - old(G.fpos))'),
                                ('C07', 'implies(isnone(progress_callback), G.cb_bytes == old(G.cb_bytes))'),
                                ('C07', 'G.sync_flushed[{1}] + {0}.send_buffer[:{0}.send_idx] == G.sync_out[{1}]'.format(FS, LID)),
                                ('C07,C04', FS_INV_S[0] + ' and ' + FS_INV_S[1]), ('C07,C04', RINV), ('C07,C10', 'G.fi[{0}] >= {1}'.format(LID, F1)),
                                ('C07,C04,C12', UNLOCKED), ('C07,C04', MONO + ' and G.rpos >= 0')])},
         doc='SEND path,mode; DATA chunks of at most max_chunk_size bytes; DONE mtime; then the status record: OKAY -> return, FAIL -> PushFailedError')


# ---------------------------------------------------------------------------------------------------------------------
# get_files_to_push, push  (C07)

contract('hidden_helpers.get_files_to_push',
         real='hidden_helpers:get_files_to_push',
         params={'local_path': 'str', 'device_path': 'str'},
         variants=[{'local_path': 'str'}, {'local_path': 'opaque:Mem'}],
         returns=lambda ex, bound: ('tuple[bool,list[str],list[str]]' if bound['local_path'].kind == 'str' else 'tuple[bool,list[opaque:Mem],list[str]]'),
         props=['C07'],
         modifies=[],
         ensures=[('C07', 'a-directory-iff-a-path-that-is-a-directory', 'result[0] == (isstr(local_path) and isdir(local_path))'),
                  ('C07', 'single-source-is-pushed-as-is',
                   'implies(not result[0], len(result[1]) == 1 and len(result[2]) == 1 and same(result[1][0], local_path) and same(result[2][0], device_path))'),
                  ('C07', 'one-pair-per-directory-entry', 'implies(result[0], len(result[1]) == listdir_len(local_path) and len(result[2]) == listdir_len(local_path))'),
                  ('C07', 'each-file-is-read-from-that-directory-whatever-the-working-directory',
                   'implies(result[0], forall_int("j", "implies(0 <= j and j < len(result[1]), result[1][j] == pathjoin(local_path, listdir_at(local_path, j)))"))'),
                  ('C07', 'and-sent-to-device_path/name',
                   'implies(result[0], forall_int("j", "implies(0 <= j and j < len(result[2]), result[2][j] == device_path + SLASH + listdir_at(local_path, j))"))')],
         raises={'OSError': []},
         doc='directory expansion: local path = join(directory, entry), device path = device_path/entry')

PUSH_TOP_MOD = FS_OP_MOD + ['G.fpos', 'G.fin', 'G.cb_bytes', 'G.files_opened']
D_NAMES = ('forall_int("j", "implies(0 <= j and j < listdir_len(local_path), '
           'len(utf8(device_path)) + 1 + len(utf8(listdir_at(local_path, j))) <= 1024)")')

contract('AdbDevice.push',
         real=dev('push'),
         params={'self': 'obj:AdbDevice', 'local_path': 'str', 'device_path': 'str', 'st_mode': 'int', 'mtime': 'int',
                 'progress_callback': 'opt[opaque:ProgressCallback]', 'transport_timeout_s': 'opt[real]', 'read_timeout_s': 'real'},
         variants=[{'local_path': 'str'}, {'local_path': 'opaque:Mem'}],
         props=['C07', 'C10', 'C13', 'C12'],
         requires=OP_REQ + [D_MAXDATA, D_PATH, 'st_mode >= 0 and st_mode < 2**32', 'mtime >= 0 and mtime < 2**32',
                            'G.fpos >= 0 and G.fpos <= len(G.fin)', 'implies(isstr(local_path), %s)' % D_NAMES],
         modifies=PUSH_TOP_MOD,
         ensures=[AVAIL, ('C13', 'path-not-empty', 'len(utf8(device_path)) > 0'), RELEASED, MONO],
         raises=op_raises(FS_FAIL + [('OSError', [RELEASED, ('C13', 'was-available', 'old(self._available)')]),
                                     ('PushFailedError', [RELEASED, MONO, ('C13', 'was-available', 'old(self._available)')])]),
         call_asserts={
             'AdbDevice._push': [
                 ('C07', 'each-file-once-in-order-to-its-device-path-with-the-given-mode-mtime-callback',
                  'same(_arg_device_path, device_paths[_i]) and _arg_st_mode == st_mode and _arg_mtime == mtime and same(_arg_progress_callback, progress_callback)'),
                 ('C07', 'on-a-fresh-sync-stream-with-the-negotiated-maxdata',
                  '_arg_filesync_info._maxdata == self._maxdata and _arg_filesync_info.send_idx == 0 and val(_arg_adb_info.local_id) == self._local_id'),
                 ('C07', 'reads-a-path-source-from-its-beginning', 'implies(isstr(local_path), G.fpos == 0)')],
             'AdbDevice.shell': [('C07', 'mkdir-only-for-a-directory', 'local_path_is_dir and same(_arg_command, asstr(b"mkdir ") + device_path)')],
         },
         loops={0: dict(invariant=[
             ('C07,C13,C12', 'old(self._available) and len(utf8(device_path)) > 0'),
             ('C07', 'self._local_id >= 0 and self._local_id < 2**32 and self._maxdata == old(self._maxdata)'),
             ('C07', 'G.fpos >= 0 and G.fpos <= len(G.fin)'),
             ('C07,C12', UNLOCKED), ('C07', MONO + ' and G.rpos >= 0'),
         ])},
         doc='get_files_to_push, mkdir for a directory, then per pair: open source rb, new sync stream, _push, host CLSE')
