"""Replay of solver counterexamples against the real code (DESIGN.md section 2.4).

A replay file names the failed obligation, carries the verifier's model and, where the model could be
turned into concrete inputs for the real function, the native run that confirms (or does not confirm) it.
"""
import hashlib
import json
import os
import subprocess
import sys

VERIF = os.path.dirname(os.path.dirname(os.path.abspath(__file__)))


def write_and_run(prop, name, q, oblig, result, run, per_oblig, sim_failure=None):
    os.makedirs(os.path.join(VERIF, 'replay'), exist_ok=True)
    h = hashlib.sha256(name.encode()).hexdigest()[:10]
    path = os.path.join(VERIF, 'replay', '%s-%s.json' % (prop, h))
    rec = {'property': prop, 'obligation': name, 'query': q,
           'claim': getattr(oblig, 'expr', None), 'where': getattr(oblig, 'where', None), 'kind': getattr(oblig, 'kind', None),
           'path_decisions': list(getattr(oblig, 'path', []) or []),
           'solver': {'result': (result or {}).get('result'), 'backend': (result or {}).get('backend'), 'model': (result or {}).get('model')},
           'repo': run.sources.repo, 'native': None}
    confirmed = False
    if sim_failure is not None:
        rec['scenario'] = sim_failure
        rec['native'] = {'confirmed': True, 'how': 'bounded scenario on the real code: ./check %s --replay %s' % (prop, path)}
        confirmed = True
    if oblig is None:
        rec['frame_scan_problems'] = [p.get('problems') for p in per_oblig if p['name'] == name]
    if not confirmed:
        try:
            from pyvc import native
            nat = native.try_replay(prop, name, oblig, result, run)
            rec['native'] = nat
            confirmed = bool(nat and nat.get('confirmed'))
        except Exception as e:      # noqa
            rec['native'] = {'confirmed': False, 'error': repr(e)}
    if not confirmed:
        rec['verdict'] = 'no-failing-input-found: the obligation is refuted by the solver (model above) but no concrete input reproduced it natively'
    else:
        rec['verdict'] = 'confirmed natively on the real code'
    with open(path, 'w') as f:
        json.dump(rec, f, indent=1, default=str)
    return path, confirmed


def write_sim_failure(prop, k, f):
    os.makedirs(os.path.join(VERIF, 'replay'), exist_ok=True)
    import hashlib
    tag = hashlib.sha256(json.dumps(f, sort_keys=True, default=repr).encode()).hexdigest()[:10]
    path = os.path.join(VERIF, 'replay', '%s-sim-%s.json' % (prop, tag))
    with open(path, 'w') as fh:
        json.dump({'property': prop, 'obligation': 'bounded-stand-in', 'scenario': f, 'verdict': 'failing input found on the real code (bounded stand-in)'},
                  fh, indent=1, default=repr)
    return path


def main_replay(path):
    rec = json.load(open(path))
    if rec.get('scenario'):
        env = dict(os.environ, PYTHONPATH=VERIF)
        env.setdefault('PYVC_REPO', '/repo')
        p = subprocess.run(['/venv/bin/python', '-m', 'sim.run', '--replay', path], cwd=VERIF, env=env, capture_output=True, text=True)
        print(p.stdout[-3000:])
        print(p.stderr[-1000:])
        return 1 if 'REPLAY-VIOLATION' in p.stdout else 0
    print(json.dumps({k: rec[k] for k in ('property', 'obligation', 'claim', 'where', 'verdict')}, indent=1))
    nat = rec.get('native') or {}
    if nat.get('script'):
        p = subprocess.run(['/venv/bin/python', '-c', nat['script']], capture_output=True, text=True, env=dict(os.environ, PYTHONPATH=rec.get('repo', '/repo')))
        print(p.stdout[-4000:])
        print(p.stderr[-2000:])
        return 1 if 'REPLAY-VIOLATION' in p.stdout else 0
    return 1
