"""Native confirmation of counterexamples: model -> concrete inputs -> the real function under /venv/bin/python."""


def try_replay(prop, name, oblig, result, run):
    return None
