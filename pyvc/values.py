"""Symbolic value domain of pyvc.

Every Python value the verified code manipulates is one of the V* classes below; each wraps z3
terms.  The *kind* of a value (int / bytes / bytearray / str / None / optional / tuple / object ...)
is static: it is fixed by the type declarations of the contract under which a function is verified
(type invariants of inputs are preconditions) and propagated by the interpreter, so `isinstance`
is always decided concretely.
"""
import z3

B8 = z3.BitVecSort(8)
Bytes = z3.SeqSort(B8)
IntS = z3.IntSort()
RealS = z3.RealSort()
BoolS = z3.BoolSort()

EMPTY = z3.Empty(Bytes)


class Unsupported(Exception):
    """A construct outside the encoded subset: the run is UNDECIDED (exit 2), never a violation."""


def bytes_const(b):
    if len(b) == 0:
        return EMPTY
    units = [z3.Unit(z3.BitVecVal(x, 8)) for x in b]
    return units[0] if len(units) == 1 else z3.Concat(*units)


class V(object):
    kind = 'value'

    def __repr__(self):
        return '<%s %s>' % (self.kind, getattr(self, 'term', ''))


class VInt(V):
    kind = 'int'

    def __init__(self, term):
        if isinstance(term, bool):
            raise TypeError
        self.term = z3.IntVal(term) if isinstance(term, int) else term

    def concrete(self):
        t = z3.simplify(self.term)
        return t.as_long() if z3.is_int_value(t) else None


class VBool(V):
    kind = 'bool'

    def __init__(self, term):
        self.term = z3.BoolVal(term) if isinstance(term, bool) else term

    def concrete(self):
        t = z3.simplify(self.term)
        if z3.is_true(t):
            return True
        if z3.is_false(t):
            return False
        return None


class VReal(V):
    kind = 'real'

    def __init__(self, term):
        if isinstance(term, (int, float)):
            term = z3.RealVal(repr(term) if isinstance(term, float) else term)
        self.term = term


class VBytes(V):
    """bytes / bytearray: Seq(BitVec 8).  `ba` is the concrete bytes-vs-bytearray tag."""
    kind = 'bytes'

    def __init__(self, term, ba=False):
        self.term = bytes_const(term) if isinstance(term, (bytes, bytearray)) else term
        self.ba = ba

    def concrete(self):
        return seq_concrete(self.term)


class VStr(V):
    """str, represented by the Seq(BitVec 8) of its UTF-8 encoding (so `+` and `.encode('utf8')` are exact;
    `len()` of a str is not modelled)."""
    kind = 'str'

    def __init__(self, term):
        self.term = bytes_const(term.encode('utf8')) if isinstance(term, str) else term

    def concrete(self):
        c = seq_concrete(self.term)
        return None if c is None else c.decode('utf8')


def seq_concrete(t):
    t = z3.simplify(t)
    out = []

    def walk(x):
        if z3.is_app(x) and x.decl().kind() == z3.Z3_OP_SEQ_EMPTY:
            return True
        if z3.is_app(x) and x.decl().kind() == z3.Z3_OP_SEQ_UNIT:
            a = x.arg(0)
            if z3.is_bv_value(a):
                out.append(a.as_long())
                return True
            return False
        if z3.is_app(x) and x.decl().kind() == z3.Z3_OP_SEQ_CONCAT:
            return all(walk(c) for c in x.children())
        return False
    return bytes(out) if walk(t) else None


class VNone(V):
    kind = 'none'


NONE = VNone()


class VOpt(V):
    """Optional[T]: `isnone` (z3 Bool) and the value when not None."""
    kind = 'opt'

    def __init__(self, isnone, val):
        self.isnone = isnone
        self.val = val

    def __repr__(self):
        return '<opt %s %r>' % (self.isnone, self.val)


class VTuple(V):
    kind = 'tuple'

    def __init__(self, items):
        self.items = list(items)

    def __repr__(self):
        return '<tuple %r>' % (self.items,)


class VList(V):
    """A list/tuple literal of statically known length (e.g. `[constants.CLSE, constants.WRTE]`)."""
    kind = 'list'

    def __init__(self, items):
        self.items = list(items)

    def __repr__(self):
        return '<list %r>' % (self.items,)


class VSeq(V):
    """A list of symbolic length: `length` (z3 Int) and `elem(i)` building the i-th element value.
    `comps` are the backing z3 arrays/functions (used for havoc, equality and models)."""
    kind = 'seq'

    def __init__(self, length, elem, etype, comps=None):
        self.length = length
        self.elem = elem
        self.etype = etype
        self.comps = comps


CMD_UNIVERSE = [b'AUTH', b'CLSE', b'CNXN', b'OKAY', b'OPEN', b'SYNC', b'WRTE',
                b'DATA', b'DENT', b'DONE', b'FAIL', b'LIST', b'QUIT', b'RECV', b'SEND', b'STAT']


class VCmdSet(V):
    """A collection used only through `x in coll` over the protocol's 4-byte ids (expected_cmds, expected_ids):
    one z3 Bool per id of the universe (ADB commands and FileSync ids); nothing else is ever a member."""
    kind = 'cmdset'

    def __init__(self, bits):
        self.bits = bits            # dict bytes -> z3 Bool

    def member(self, term):
        return z3.Or(*[z3.And(term == bytes_const(c), b) for c, b in self.bits.items()])


class VObj(V):
    kind = 'obj'
    _n = 0

    def __init__(self, cls, fields=None, name=None):
        self.cls = cls
        self.fields = dict(fields or {})
        VObj._n += 1
        self.name = name or ('%s#%d' % (cls, VObj._n))

    def __repr__(self):
        return '<obj %s>' % self.name


class VLock(V):
    kind = 'lock'

    def __init__(self, name):
        self.name = name


class VClass(V):
    kind = 'class'

    def __init__(self, name):
        self.name = name

    def __repr__(self):
        return '<class %s>' % self.name


class VFunc(V):
    """A reference to something callable: ('repo', module, qualname) | ('lib', dotted) | ('method', obj, name)."""
    kind = 'func'

    def __init__(self, how, *info):
        self.how = how
        self.info = info

    def __repr__(self):
        return '<func %s %r>' % (self.how, self.info)


class VModule(V):
    kind = 'module'

    def __init__(self, name):
        self.name = name

    def __repr__(self):
        return '<module %s>' % self.name


class VOpaque(V):
    """An object the code only passes around or calls through a trusted contract (callbacks, keys, loggers)."""
    kind = 'opaque'

    def __init__(self, tag, term=None):
        self.tag = tag
        self.term = term

    def __repr__(self):
        return '<opaque %s>' % self.tag


class VExc(V):
    kind = 'exc'

    def __init__(self, cls, payload=None):
        self.cls = cls
        self.payload = payload

    def __repr__(self):
        return '<exc %s>' % self.cls


class VGen(V):
    """A generator object: the contract that describes each step, bound arguments, and its ghost position."""
    kind = 'gen'

    def __init__(self, contract, binding, mapper=None):
        self.contract = contract
        self.binding = binding
        self.mapper = mapper       # optional per-element transformation (genexp over the generator)
        self.state = {}


class VDict2(V):
    """dict[int -> dict[int -> Queue]] of the packet store: nested presence/value arrays.
    has1[k1]; has[k1][k0]; q[k1][k0] : Seq(Pkt)."""
    kind = 'dict2'

    def __init__(self, has1, has, q):
        self.has1, self.has, self.q = has1, has, q


class VDict1(V):
    """One inner dict of the store: a view (parent dict2 value, key1)."""
    kind = 'dict1'

    def __init__(self, has, q):
        self.has, self.q = has, q


class VQueue(V):
    kind = 'queue'

    def __init__(self, items):
        self.items = items   # z3 Seq(Pkt)


# ------------------------------------------------------------------------------------------------
# generic helpers over values

def is_noneish(v):
    return isinstance(v, VNone)


def as_opt(v):
    """View any value as (isnone, inner)."""
    if isinstance(v, VNone):
        return z3.BoolVal(True), None
    if isinstance(v, VOpt):
        return v.isnone, v.val
    return z3.BoolVal(False), v


def mk_opt(isnone, val):
    s = z3.simplify(isnone)
    if z3.is_true(s):
        return NONE
    if z3.is_false(s) and val is not None:
        return val
    if val is None:
        return NONE
    return VOpt(s, val)


def same_kind(a, b):
    if type(a) is not type(b):
        return False
    if isinstance(a, VBytes):
        return a.ba == b.ba
    if isinstance(a, (VTuple, VList)):
        return len(a.items) == len(b.items) and all(same_kind(x, y) or mergeable(x, y) for x, y in zip(a.items, b.items))
    return True


def mergeable(a, b):
    try:
        merge(z3.Bool('__probe'), a, b)
        return True
    except Unsupported:
        return False


def merge(c, a, b):
    """ite(c, a, b) on values."""
    if a is b:
        return a
    cs = z3.simplify(c)
    if z3.is_true(cs):
        return a
    if z3.is_false(cs):
        return b
    an, av = as_opt(a)
    bn, bv = as_opt(b)
    if isinstance(a, (VNone, VOpt)) or isinstance(b, (VNone, VOpt)):
        if av is None and bv is None:
            return NONE
        inner = av if bv is None else (bv if av is None else merge(c, av, bv))
        return mk_opt(z3.If(c, an, bn), inner)
    if isinstance(a, VInt) and isinstance(b, VInt):
        return VInt(z3.If(c, a.term, b.term))
    if isinstance(a, VBool) and isinstance(b, VBool):
        return VBool(z3.If(c, a.term, b.term))
    if isinstance(a, (VReal, VInt)) and isinstance(b, (VReal, VInt)):
        return VReal(z3.If(c, to_real(a), to_real(b)))
    if isinstance(a, VBytes) and isinstance(b, VBytes):
        return VBytes(z3.If(c, a.term, b.term), a.ba and b.ba)
    if isinstance(a, VStr) and isinstance(b, VStr):
        return VStr(z3.If(c, a.term, b.term))
    if isinstance(a, VTuple) and isinstance(b, VTuple) and len(a.items) == len(b.items):
        return VTuple([merge(c, x, y) for x, y in zip(a.items, b.items)])
    if isinstance(a, VCmdSet) and isinstance(b, VCmdSet):
        return VCmdSet({k: z3.If(c, a.bits[k], b.bits[k]) for k in a.bits})
    if isinstance(a, VOpaque) and isinstance(b, VOpaque) and a.term is not None and b.term is not None:
        return VOpaque(a.tag, z3.If(c, a.term, b.term))
    raise Unsupported('cannot merge %r and %r' % (a, b))


def to_real(v):
    if isinstance(v, VReal):
        return v.term
    if isinstance(v, VInt):
        return z3.ToReal(v.term)
    if isinstance(v, VBool):
        return z3.If(v.term, z3.RealVal(1), z3.RealVal(0))
    raise Unsupported('not numeric: %r' % (v,))


def veq(a, b):
    """z3 Bool for Python `a == b` (structural, on the encoded subset)."""
    an, av = as_opt(a)
    bn, bv = as_opt(b)
    if isinstance(a, (VNone, VOpt)) or isinstance(b, (VNone, VOpt)):
        both_none = z3.And(an, bn)
        if av is None or bv is None:
            return z3.simplify(both_none)
        return z3.Or(both_none, z3.And(z3.Not(an), z3.Not(bn), veq(av, bv)))
    if isinstance(a, VBool) and isinstance(b, VBool):
        return a.term == b.term
    if isinstance(a, (VInt, VBool)) and isinstance(b, (VInt, VBool)):
        return to_int(a) == to_int(b)
    if isinstance(a, (VInt, VReal, VBool)) and isinstance(b, (VInt, VReal, VBool)):
        return to_real(a) == to_real(b)
    if isinstance(a, VBytes) and isinstance(b, VBytes):
        return a.term == b.term          # bytes == bytearray compares contents in Python 3
    if isinstance(a, VStr) and isinstance(b, VStr):
        return a.term == b.term
    if isinstance(a, (VTuple, VList)) and isinstance(b, (VTuple, VList)):
        if type(a) is not type(b) or len(a.items) != len(b.items):
            return z3.BoolVal(False)
        return z3.And(*[veq(x, y) for x, y in zip(a.items, b.items)]) if a.items else z3.BoolVal(True)
    if isinstance(a, VSeq) and isinstance(b, VSeq):
        if a.comps is not None and b.comps is not None and len(a.comps) == len(b.comps):
            i = z3.Int('__i')
            body = z3.And(*[z3.Select(x, i) == z3.Select(y, i) for x, y in zip(a.comps, b.comps)])
            return z3.And(a.length == b.length, z3.ForAll([i], z3.Implies(z3.And(i >= 0, i < a.length), body)))
        raise Unsupported('seq equality')
    if isinstance(a, VCmdSet) and isinstance(b, VCmdSet):
        return z3.And(*[a.bits[k] == b.bits[k] for k in a.bits])
    if isinstance(a, VObj) and isinstance(b, VObj):
        return z3.BoolVal(a is b)
    if isinstance(a, VOpaque) and isinstance(b, VOpaque):
        if a.term is not None and b.term is not None:
            return a.term == b.term
        return z3.BoolVal(a is b)
    if isinstance(a, VClass) and isinstance(b, VClass):
        return z3.BoolVal(a.name == b.name)
    if isinstance(a, VQueue) and isinstance(b, VQueue):
        return a.items == b.items
    # values of different kinds are never equal in the subset (bytes vs str, int vs bytes ...)
    kinds = {type(a), type(b)}
    if kinds <= {VBytes, VStr, VInt, VBool, VReal, VTuple, VList, VObj, VClass, VOpaque}:
        return z3.BoolVal(False)
    raise Unsupported('equality of %r and %r' % (a, b))


def to_int(v):
    if isinstance(v, VInt):
        return v.term
    if isinstance(v, VBool):
        return z3.If(v.term, z3.IntVal(1), z3.IntVal(0))
    raise Unsupported('not an int: %r' % (v,))


def truth(v):
    """z3 Bool for Python truthiness."""
    if isinstance(v, VBool):
        return v.term
    if isinstance(v, VInt):
        return v.term != 0
    if isinstance(v, VReal):
        return v.term != 0
    if isinstance(v, (VBytes, VStr)):
        return z3.Length(v.term) > 0
    if isinstance(v, VNone):
        return z3.BoolVal(False)
    if isinstance(v, VOpt):
        return z3.And(z3.Not(v.isnone), truth(v.val))
    if isinstance(v, (VTuple, VList)):
        return z3.BoolVal(len(v.items) > 0)
    if isinstance(v, VSeq):
        return v.length > 0
    if isinstance(v, (VObj, VOpaque, VClass, VFunc, VLock)):
        return z3.BoolVal(True)
    if isinstance(v, VDict2):
        k = z3.Int('__k1')
        return z3.Exists([k], z3.Select(v.has1, k))
    if isinstance(v, VDict1):
        k = z3.Int('__k0')
        return z3.Exists([k], z3.Select(v.has, k))
    raise Unsupported('truthiness of %r' % (v,))


class VMap(V):
    """Ghost map int -> int/bool/bytes (z3 Array); only contracts see these."""
    kind = 'map'

    def __init__(self, arr):
        self.arr = arr


_veq_base = veq


def veq(a, b):      # noqa: F811  (extends the structural equality with ghost maps)
    if isinstance(a, VMap) and isinstance(b, VMap):
        return a.arr == b.arr
    if isinstance(a, VDict2) and isinstance(b, VDict2):
        return z3.And(a.has1 == b.has1, a.has == b.has, a.q == b.q)
    return _veq_base(a, b)
