"""Property check driver: contracts -> obligations -> solver verdicts -> evidence / VIOLATION lines."""
import hashlib
import importlib
import json
import os
import sys
import time
import traceback

import z3

from . import dsl, solve, source, specfuns as SF, values as V
from .symexec import Executor
from .values import Unsupported
from .world import World, LIB_AXIOMS

VERIF = os.path.dirname(os.path.dirname(os.path.abspath(__file__)))

CONTRACT_MODULES = ['contracts.base', 'contracts.adb_message', 'contracts.transport', 'contracts.iomanager', 'contracts.store', 'contracts.helpers', 'contracts.device', 'contracts.filesync', 'contracts.frames', 'contracts.twins', 'contracts.tcp', 'contracts.usb', 'contracts.auth']


def load_contracts():
    dsl.reset()
    if VERIF not in sys.path:
        sys.path.insert(0, VERIF)
    mods = list(CONTRACT_MODULES)
    extra = os.path.join(VERIF, 'contracts', 'MODULES')
    if os.path.exists(extra):
        mods = [l.strip() for l in open(extra) if l.strip() and not l.startswith('#')]
    for m in mods:
        if m in sys.modules:
            importlib.reload(sys.modules[m])
        else:
            importlib.import_module(m)


class Ob(object):
    """A serialisable obligation query."""
    def __init__(self, name, props, smt2, expr, where, kind, path, meta):
        self.name, self.props, self.smt2, self.expr, self.where, self.kind, self.path, self.meta = name, props, smt2, expr, where, kind, path, meta


_RUN = None


def _gen_worker(task):
    key, twin, variant = task
    import faulthandler
    faulthandler.dump_traceback_later(240, repeat=True)
    run = _RUN
    c = dsl.CONTRACTS[key]
    out = {'function': None, 'obligations': [], 'covers': [], 'undecided': [], 'used_axioms': [], 'sf_axioms': [], 'paths': 0, 'fchecks': 0, 'traces': None}
    w = run.world(twin)
    ex = Executor(run.sources, twin, w)
    t0 = time.time()
    try:
        obs = ex.verify(c, variant, only_props=[run.prop])
        module, fn = run.sources.function(c.real[twin])
        for o in obs:
            out['obligations'].append(Ob(o.name, sorted(o.props), solve.build_query(o.pc, o.claim), o.expr, o.where, o.kind, list(o.path),
                                         {k: (v if isinstance(v, (str, int, float, bool, type(None))) else repr(v)) for k, v in o.meta.items()}))
        for name, pc, props in ex.covers:
            if run.prop in props:
                out['covers'].append((name, solve.build_sat_query(pc)))
        out['function'] = {'contract': c.key, 'twin': twin, 'variant': variant, 'function': c.real[twin], 'file': module.path,
                           'line': fn.lineno, 'source_hash': source.func_source_hash(fn), 'paths': ex.stats['paths'],
                           'obligation_queries': len(obs), 'gen_seconds': round(time.time() - t0, 3)}
        out['paths'] = ex.stats['paths']
        out['traces'] = (c.key, twin, repr(sorted(variant.items())), sorted(ex.path_traces),
                         {k: solve.build_sat_query(pc) for k, pc in ex.path_trace_pcs.items()})
        out['fchecks'] = ex.stats['feasibility_checks']
    except Unsupported as e:
        out['undecided'].append(('%s[%s]' % (c.key, twin), 'unsupported: %s' % e))
    except KeyError as e:
        out['undecided'].append(('%s[%s]' % (c.key, twin), 'stale contract or missing function: %r' % (e,)))
    except RecursionError:
        out['undecided'].append(('%s[%s]' % (c.key, twin), 'recursion limit'))
    faulthandler.cancel_dump_traceback_later()
    out['used_axioms'] = sorted(w.used_axioms)
    out['sf_axioms'] = sorted(SF.USED_AXIOMS)
    return out


class Run(object):
    def __init__(self, prop, tier='quick', seed=0, repo=None, jobs=None, only=None):
        self.prop = prop
        self.tier = tier
        self.seed = seed
        self.jobs = jobs
        self.only = only
        self.sources = source.Sources(repo)
        self.obligations = []       # Ob
        self.covers = []
        self.undecided = []         # (what, reason)
        self.functions = []
        self.worlds = {}
        self.used_axioms = set()
        self.sf_axioms = set()
        self.stats = {'paths': 0, 'feasibility_checks': 0}
        self.traces = []            # (contract key, twin, variant, sorted call skeletons of all paths)

    def world(self, twin):
        if twin not in self.worlds:
            self.worlds[twin] = World(self.sources, twin)
            from contracts import hooks
            hooks.install(self.worlds[twin])
        return self.worlds[twin]

    def tasks(self):
        seen_refs = set()
        out = []
        for c in dsl.CONTRACTS.values():
            if self.prop not in c.props or c.trusted or not c.real:
                continue
            if self.only and not any((o[1:] == c.key) if o.startswith('=') else (o in c.key) for o in self.only):
                continue
            for twin in c.twins:
                ref = c.real.get(twin)
                if not ref or (c.key, ref) in seen_refs:
                    continue
                seen_refs.add((c.key, ref))
                for variant in c.variants:
                    if variant.get('__twin__', twin) != twin:
                        continue
                    out.append((c.key, twin, variant))
        return out

    def generate(self):
        global _RUN
        import multiprocessing
        tasks = self.tasks()
        # make sure the sources the workers need are parsed (and hashed) in the parent too
        for key, twin, variant in tasks:
            try:
                self.sources.function(dsl.CONTRACTS[key].real[twin])
            except (KeyError, OSError, SyntaxError):
                pass
        _RUN = self
        jobs = self.jobs or min(16, os.cpu_count() or 4)
        if jobs == 1 or len(tasks) <= 1:
            results = [_gen_worker(t) for t in tasks]
        else:
            ctx = multiprocessing.get_context('fork')
            with ctx.Pool(min(jobs, len(tasks))) as pool:
                results = pool.map(_gen_worker, tasks, chunksize=1)
        for out in results:
            if out['function']:
                self.functions.append(out['function'])
            self.obligations.extend(out['obligations'])
            self.covers.extend(out['covers'])
            self.undecided.extend(out['undecided'])
            self.used_axioms.update(out['used_axioms'])
            self.sf_axioms.update(out['sf_axioms'])
            self.stats['paths'] += out['paths']
            if out.get('traces'):
                self.traces.append(out['traces'])
            self.stats['feasibility_checks'] += out['fchecks']

    def lemmas(self):
        out = []
        self.world('sync')        # loads the real constants module (dsl.CONSTANTS)
        for name, (props, build, doc) in dsl.LEMMAS.items():
            if self.prop in props:
                pc, claim = build(z3, SF, V)
                out.append((name, solve.build_query(pc, claim), doc))
        return out

    def framescans(self):
        out = []
        for name, props, fn, doc in dsl.FRAMESCANS:
            if self.prop in props:
                for twin in ('sync', 'async'):
                    try:
                        problems = fn(self.sources, twin)
                    except KeyError as e:
                        problems = None
                        self.undecided.append(('%s[%s]' % (name, twin), 'stale frame scan: %r' % (e,)))
                    if problems is not None:
                        out.append(('%s[%s]' % (name, twin), problems, doc))
        return out
