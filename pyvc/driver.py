"""Property check driver: contracts -> obligations -> solver verdicts -> evidence / VIOLATION lines."""
import hashlib
import importlib
import json
import os
import sys
import time
import traceback

import z3

from . import dsl, solve, source, specfuns as SF, values as V
from .symexec import Executor
from .values import Unsupported
from .world import World, LIB_AXIOMS

VERIF = os.path.dirname(os.path.dirname(os.path.abspath(__file__)))

CONTRACT_MODULES = ['contracts.base', 'contracts.adb_message', 'contracts.transport', 'contracts.iomanager']


def load_contracts():
    dsl.reset()
    if VERIF not in sys.path:
        sys.path.insert(0, VERIF)
    mods = list(CONTRACT_MODULES)
    extra = os.path.join(VERIF, 'contracts', 'MODULES')
    if os.path.exists(extra):
        mods = [l.strip() for l in open(extra) if l.strip() and not l.startswith('#')]
    for m in mods:
        if m in sys.modules:
            importlib.reload(sys.modules[m])
        else:
            importlib.import_module(m)


class Run(object):
    def __init__(self, prop, tier='quick', seed=0, repo=None, jobs=None, only=None):
        self.prop = prop
        self.tier = tier
        self.seed = seed
        self.jobs = jobs
        self.only = only
        self.sources = source.Sources(repo)
        self.obligations = []       # (Obligation, twin)
        self.covers = []
        self.undecided = []         # (what, reason)
        self.functions = []
        self.worlds = {}
        self.stats = {'paths': 0, 'feasibility_checks': 0}

    def world(self, twin):
        if twin not in self.worlds:
            self.worlds[twin] = World(self.sources, twin)
            from contracts import hooks
            hooks.install(self.worlds[twin])
        return self.worlds[twin]

    def generate(self):
        seen_refs = set()
        for c in dsl.CONTRACTS.values():
            if self.prop not in c.props or c.trusted or not c.real:
                continue
            if self.only and not any(o in c.key for o in self.only):
                continue
            for twin in c.twins:
                ref = c.real.get(twin)
                if not ref or (c.key, ref) in seen_refs:
                    continue
                seen_refs.add((c.key, ref))
                for variant in c.variants:
                    self.generate_one(c, twin, variant)

    def generate_one(self, c, twin, variant):
        w = self.world(twin)
        ex = Executor(self.sources, twin, w)
        t0 = time.time()
        try:
            obs = ex.verify(c, variant, only_props=[self.prop])
            module, fn = self.sources.function(c.real[twin])
            self.functions.append({'contract': c.key, 'twin': twin, 'variant': variant, 'function': c.real[twin], 'file': module.path,
                                   'line': fn.lineno, 'source_hash': source.func_source_hash(fn), 'paths': ex.stats['paths'],
                                   'obligation_queries': len(obs), 'gen_seconds': round(time.time() - t0, 3)})
            for o in obs:
                self.obligations.append(o)
            for name, pc, props in ex.covers:
                if self.prop in props:
                    self.covers.append((name, pc))
            self.stats['paths'] += ex.stats['paths']
            self.stats['feasibility_checks'] += ex.stats['feasibility_checks']
        except Unsupported as e:
            self.undecided.append(('%s[%s]' % (c.key, twin), 'unsupported: %s' % e))
        except KeyError as e:
            self.undecided.append(('%s[%s]' % (c.key, twin), 'stale contract or missing function: %r' % (e,)))
        except RecursionError:
            self.undecided.append(('%s[%s]' % (c.key, twin), 'recursion limit'))

    def lemmas(self):
        out = []
        for name, (props, build, doc) in dsl.LEMMAS.items():
            if self.prop in props:
                pc, claim = build(z3, SF, V)
                out.append((name, pc, claim, doc))
        return out

    def framescans(self):
        out = []
        for name, props, fn, doc in dsl.FRAMESCANS:
            if self.prop in props:
                for twin in ('sync', 'async'):
                    try:
                        problems = fn(self.sources, twin)
                    except KeyError as e:
                        problems = None
                        self.undecided.append(('%s[%s]' % (name, twin), 'stale frame scan: %r' % (e,)))
                    if problems is not None:
                        out.append(('%s[%s]' % (name, twin), problems, doc))
        return out


def group_name(o):
    return o.name
