"""The environment model of the executor: name resolution against the real modules' imports, library
axioms (struct, time, builtins, bytes methods ...), object construction, inlining of un-contracted
helpers, generators, locks, spec functions available to contracts.

Everything in here that gives meaning to a *library* call is part of the trusted base and is
enumerated in LIB_AXIOMS (reported in every evidence file for the axioms a run actually used).
"""
import ast
import importlib
import sys
import z3

from . import dsl
from . import specfuns as SF
from .values import *        # noqa
from .values import Unsupported
from .symexec import RaiseSig, ReturnSig, BreakSig, ContinueSig, PathEnd, exc_is_subclass, BUILTIN_EXC_PARENTS

TWO32 = 2 ** 32

LIB_AXIOMS = {
    'write-only attribute': 'A-WRITEONLY: an attribute outside the declared state that no expression of the package reads is not modelled; writes to it are skipped',
    'Lock.acquire': 'Lock.acquire() returns True once the lock is held (False possible only when non-blocking or with a timeout); Lock.release() of an unheld lock raises RuntimeError',
    'Lock.release': 'see Lock.acquire',
    'struct.pack': "struct.pack('<nI', v...) raises struct.error unless every 0 <= v < 2^32, else returns the concatenation of le32(v)",
    'pow': 'pow(x, y[, m]) is x ** y [mod m] (concrete base and exponent)',
    'struct.unpack_from': "struct.unpack_from('<nI', b, off) raises struct.error unless len(b) - off >= 4n (off >= 0), else returns the n words of b[off:off+4n]",
    'struct.unpack': "struct.unpack('<nI', b) raises struct.error unless len(b) == 4n, else returns the n words unle32(b[4i:4i+4])",
    'struct.calcsize': "struct.calcsize('<nI') == 4n",
    'sum': 'builtin sum over bytes/bytearray is the sum of the byte values (bsum)',
    'len': 'len of bytes/bytearray/list/tuple',
    'min/max': 'builtin min/max on numbers',
    'int': 'int(x) is x on ints, floor on non-negative reals (A-REAL)',
    'bytes()': 'bytes(bytearray) copies contents; bytearray(n) is n zero bytes; bytearray(str, "utf-8") is the UTF-8 encoding',
    'isinstance': 'isinstance is decided by the static kind of the value',
    'bytes.%': "b'..%s..' % x substitutes the bytes of x for each %s",
    'bytes.join': "b''.join(iterable) is the concatenation in order",
    'bytes.decode': "bytes.decode('utf8', 'backslashreplace') is a total function dec_bsr that never raises; with any other error handler it may raise UnicodeDecodeError",
    'str.encode': "str.encode('utf8'/'utf-8') is the UTF-8 encoding (the representation of str values)",
    'str.format': "'{},{}'.format(s, int) encodes to utf8(s) ++ b',' ++ decimal(int)",
    'time.time': 'time.time() returns the ghost clock `now` after an arbitrary non-negative computation delay accounted in `cpu` (A-REAL); A-EPOCH: 0 <= now < 2^32-1',
    'logging': 'A-LOG: calls on _LOGGER neither raise nor change program state',
    'message-property-opaque': 'A-MSG fallback: a property of self read inside an error message / logger argument whose body is outside the encoded subset is taken not to raise',
    'Lock': 'threading.Lock / asyncio.Lock is a non-re-entrant mutex; `with` releases on every exit',
    'Queue': 'asyncio.Queue() is an unbounded FIFO: empty(), put_nowait appends, get_nowait pops the head (QueueEmpty when empty)',
    'dict': 'dict semantics for membership, item get/set/del, truthiness; iteration visits every item once (order not modelled)',
    'next': 'next(<genexp over dict items>, default) returns the element for some item satisfying the conditions, or default if none does',
    'list.append': 'list.append adds at the end',
    'int.to_bytes': "n.to_bytes(k, 'little') raises OverflowError unless 0 <= n < 256^k, else returns the k little-endian digits le_bytes(n, k)",
    'open': 'open()/aiofiles.open() used as a context manager yields a file object or raises OSError; the file is closed on exit',
    'async_timeout': 'A-TIMEOUTCTX: inside `async with async_timeout.timeout(t)` an await is cancelled with asyncio.TimeoutError once t seconds have passed; the block is left within max(t,0) seconds',
    'os': 'os.fstat/os.listdir/os.path.isdir/os.getlogin/socket.gethostname return unconstrained values (or raise OSError)',
}


# ghost fields that library handlers update directly (needed for the static write sets of loops)
LIB_WRITES = {'async_timeout.timeout': ['tctx', 'tctx_on', 'now'], 'time.time': ['now', 'cpu'], 'open': ['files_opened', 'fin', 'fpos'], 'aiofiles.open': ['files_opened', 'fin', 'fpos']}


class World(object):
    def __init__(self, sources, twin):
        self.sources = sources
        self.twin = twin
        self.custom_types = {}
        self.class_invariants = {}
        self.used_axioms = set()
        self.real_index = {}
        self.class_index = {}
        self.constants = self._load_constants()
        self.hooks = {}
        for c in dsl.CONTRACTS.values():
            if c.real:
                ref = c.real.get(twin)
                if ref:
                    self.real_index[ref] = c
        for d in dsl.CLASSES.values():
            ref = d.real.get(twin)
            if ref:
                self.class_index[ref] = d
        self.custom_types['intmap'] = lambda ex, n: VMap(z3.Const(n, z3.ArraySort(IntS, IntS)))
        self.custom_types['boolmap'] = lambda ex, n: VMap(z3.Const(n, z3.ArraySort(IntS, BoolS)))
        self.custom_types['bytesmap'] = lambda ex, n: VMap(z3.Const(n, z3.ArraySort(IntS, Bytes)))
        self.custom_types['queue'] = lambda ex, n: VQueue(z3.Const(n, PktSeq))

    def _load_constants(self):
        """The real constants.py is input-free straight-line module code: it is *executed* and its values used."""
        repo = self.sources.repo
        if repo not in sys.path:
            sys.path.insert(0, repo)
        for k in [k for k in sys.modules if k == 'adb_shell' or k.startswith('adb_shell.')]:
            del sys.modules[k]
        mod = importlib.import_module('adb_shell.constants')
        if not mod.__file__.startswith(repo):
            raise RuntimeError('constants imported from %s, not from %s' % (mod.__file__, repo))
        dsl.CONSTANTS = mod
        return mod

    def use(self, axiom):
        self.used_axioms.add(axiom)

    # ---------------------------------------------------------------------------------------------
    # hooks with trivial defaults (contracts/world extensions override by assignment)

    def ghost_invariant(self, ex, G):
        h = self.hooks.get('ghost_invariant')
        if h:
            h(ex, G)

    def on_field_write(self, ex, o, attr, v):
        decl = dsl.CLASSES.get(o.cls)
        if decl and attr in decl.fields and isinstance(v, VLock) and v.name is None:
            v.name = decl.fields[attr].split(':', 1)[1]

    GUARDED = {('AdbDevice', '_local_id'): ('local_id', {'C14', 'C06'}),
               ('IOManager', '_transport'): ('transport', {'C06'}),
               ('IOManager', '_packet_store'): ('store', {'C06'})}

    def guarded_access(self, ex, obj, attr, node):
        """Ownership: a guarded field is only touched while its lock is held (C06 item 2, C14)."""
        g = self.GUARDED.get((obj.cls, attr))
        if g is None or getattr(ex, 'in_init', False) or ex.contract.key.endswith('.__init__'):
            return
        lock, props = g
        ex.oblige('owned[%s.%s]@%s' % (obj.cls, attr, getattr(node, 'lineno', '?')), ex.G.fields['held_' + lock].term, props, 'ownership',
                  expr='%s.%s is accessed only while the %s lock is held' % (obj.cls, attr, lock))

    def after_yield(self, ex):
        """The consumer runs between two next() calls: the clock may advance (nothing else, see A-YIELD)."""
        G = ex.G
        d = z3.Real(ex.fresh_name('consumer_d'))
        ex.assume(d >= 0)
        G.fields['now'] = VReal(G.fields['now'].term + d)

    def exc_payload(self, ex, contract, cls, bound):
        h = self.hooks.get('exc_payload')
        return h(ex, contract, cls, bound) if h else None

    def type_matches(self, v, want):
        want = want.strip()
        if want in ('int', 'u32', 'nat'):
            return isinstance(v, (VInt,))
        if want == 'bool':
            return isinstance(v, VBool)
        if want == 'real':
            return isinstance(v, (VReal, VInt))
        if want == 'bytes':
            return isinstance(v, VBytes) and not v.ba
        if want == 'bytearray':
            return isinstance(v, VBytes) and v.ba
        if want == 'byteslike':
            return isinstance(v, VBytes)
        if want == 'str':
            return isinstance(v, VStr)
        if want == 'none':
            return isinstance(v, VNone)
        if want.startswith('opt['):
            if isinstance(v, VNone):
                return True
            if isinstance(v, VOpt):
                return self.type_matches(v.val, want[4:-1])
            return self.type_matches(v, want[4:-1])
        if want.startswith('tuple['):
            from .symexec import TypeSpec
            parts = TypeSpec.split_args(want[6:-1])
            return isinstance(v, VTuple) and len(v.items) == len(parts) and all(self.type_matches(x, p) for x, p in zip(v.items, parts))
        if want.startswith('obj:'):
            return isinstance(v, VObj) and v.cls == want[4:]
        if want.startswith('list['):
            return isinstance(v, (VSeq, VList))
        if want.startswith('lock:'):
            return isinstance(v, VLock)
        return True

    def coerce(self, ex, v, typ):
        """Adapt an argument to a declared parameter type (list literal -> cmdset, int -> real, T -> opt[T])."""
        typ = typ.strip()
        if typ == 'cmdset' and isinstance(v, (VList, VTuple)):
            from .values import CMD_UNIVERSE
            members = set()
            for it in v.items:
                c = it.concrete() if isinstance(it, VBytes) else None
                if c is None or c not in CMD_UNIVERSE:
                    raise Unsupported('cmdset element %r is not a literal protocol id' % (it,))
                members.add(c)
            return VCmdSet({c: z3.BoolVal(c in members) for c in CMD_UNIVERSE})
        if typ == 'real' and isinstance(v, VInt):
            return VReal(z3.ToReal(v.term))
        if typ.startswith('opt[') and isinstance(v, VInt) and typ[4:-1] == 'real':
            return VReal(z3.ToReal(v.term))
        if typ.startswith('opt[') and isinstance(v, VOpt) and isinstance(v.val, VInt) and typ[4:-1] == 'real':
            return VOpt(v.isnone, VReal(z3.ToReal(v.val.term)))
        return v

    # ---------------------------------------------------------------------------------------------
    # names

    BUILTIN_CLASSES = ('Exception', 'OSError', 'IOError', 'ValueError', 'KeyError', 'IndexError', 'TypeError', 'AssertionError',
                       'FileNotFoundError', 'ImportError', 'AttributeError', 'StopIteration')

    def resolve_global(self, ex, name):
        m = ex.cur_module
        if name in m.funcs:
            short = m.name.split('.', 1)[1]
            return VFunc('repo', short, name)
        if name in m.classes:
            short = m.name.split('.', 1)[1]
            return VClass('%s:%s' % (short, name))
        if name in m.imports:
            imp = m.imports[name]
            if imp[0] == 'module':
                return VModule(imp[1])
            base, attr = imp[1], imp[2]
            if base == 'adb_shell' or base.startswith('adb_shell.') or base == 'adb_shell':
                short = base.split('.', 1)[1] if '.' in base else ''
                if short == '':
                    return VModule('adb_shell.' + attr)       # from . import constants
                target = self.sources.module(short)
                if attr in target.funcs:
                    return VFunc('repo', short, attr)
                if attr in target.classes:
                    return VClass('%s:%s' % (short, attr))
                if attr in target.assigns:
                    return self.module_level_value(ex, target, attr)
                if attr in target.imports:
                    saved = ex.cur_module
                    ex.cur_module = target
                    try:
                        return self.resolve_global(ex, attr)
                    finally:
                        ex.cur_module = saved
                raise Unsupported('cannot resolve %s from %s' % (attr, base))
            return self.lib_object('%s.%s' % (base, attr))
        if name in m.assigns:
            return self.module_level_value(ex, m, name)
        if name in self.BUILTIN_CLASSES:
            return VClass(name)
        if name in BUILTINS:
            return VFunc('lib', name)
        raise Unsupported('unresolved name %r at %s' % (name, ex.where()))

    def module_level_value(self, ex, module, name):
        node = module.assigns[name]
        saved = (ex.cur_module, ex.env, ex.mode)
        ex.cur_module, ex.env, ex.mode = module, {}, 'code'
        try:
            if name == '_LOGGER':
                return VOpaque('logger')
            return ex.eval(node)
        finally:
            ex.cur_module, ex.env, ex.mode = saved

    LIB_MODULES = {'cryptography.hazmat.primitives.serialization', 'cryptography.hazmat.primitives.hashes',
                   'cryptography.hazmat.primitives.asymmetric.rsa', 'cryptography.hazmat.primitives.asymmetric.padding',
                   'cryptography.hazmat.primitives.asymmetric.utils', 'Crypto.Hash.SHA1', 'Crypto.PublicKey.RSA', 'Crypto.Signature.pkcs1_15',
                   'rsa.pkcs1', 'pyasn1.codec.der.decoder', 'pyasn1.type.univ'}

    def lib_object(self, dotted):
        if dotted in self.LIB_MODULES:
            return VModule(dotted)
        if dotted in ('threading.Lock', 'asyncio.Lock'):
            return VClass('lib:Lock')
        if dotted in ('asyncio.Queue', 'queue.Queue', 'Queue.Queue'):
            return VClass('lib:Queue')
        if dotted == 'io.BytesIO':
            return VClass('lib:BytesIO')
        if dotted == 'collections.namedtuple':
            return VFunc('lib', 'namedtuple')
        if dotted in ('contextlib.contextmanager', 'contextlib.asynccontextmanager'):
            return VFunc('lib', 'contextmanager')
        if dotted == 'asyncio.get_running_loop':
            return VFunc('lib', 'get_running_loop')
        return VFunc('lib', dotted)

    def module_attr(self, ex, mod, attr):
        name = mod.name
        if name == 'adb_shell.constants':
            if not hasattr(self.constants, attr):
                raise RaiseSig(VExc('AttributeError'))
            return self.py_to_value(getattr(self.constants, attr), 'constants.' + attr)
        if name == 'adb_shell.exceptions':
            return VClass('exceptions:' + attr)
        if name == 'sys' and attr == 'version_info':
            return VTuple([VInt(3), VInt(12), VInt(1)])
        if name == 'os' and attr == 'path':
            return VModule('os.path')
        if name in ('struct', 'socket', 'asyncio', 'usb1', 'select', 'io') and attr in ('error', 'TimeoutError', 'USBError', 'USBErrorNotFound', 'USBErrorTimeout',
                                                                                        'timeout', 'UnsupportedOperation', 'QueueEmpty'):
            return VClass('%s.%s' % (name, attr))
        if name == 'usb1' and 'usb1.' + attr in BUILTIN_EXC_PARENTS:
            return VClass('usb1.' + attr)
        if name == 'usb1' and attr in ('ENDPOINT_DIR_MASK', 'USB_ENDPOINT_DIR_MASK'):
            return VInt(0x80)
        if name == 'socket' and attr in ('SHUT_RDWR',):
            return VInt(2)
        if name.startswith('adb_shell.'):
            short = name.split('.', 1)[1]
            target = self.sources.module(short)
            if attr in target.funcs:
                return VFunc('repo', short, attr)
            if attr in target.classes:
                return VClass('%s:%s' % (short, attr))
        return self.lib_object('%s.%s' % (name, attr))

    def py_to_value(self, x, label):
        if x is None:
            return NONE
        if isinstance(x, bool):
            return VBool(x)
        if isinstance(x, int):
            return VInt(x)
        if isinstance(x, float):
            return VReal(x)
        if isinstance(x, bytes):
            return VBytes(x, False)
        if isinstance(x, bytearray):
            return VBytes(bytes(x), True)
        if isinstance(x, str):
            return VStr(x)
        if isinstance(x, (tuple, list)):
            return VList([self.py_to_value(y, label) for y in x]) if isinstance(x, list) else VTuple([self.py_to_value(y, label) for y in x])
        if isinstance(x, dict):
            return VConstDict({k: self.py_to_value(v, label) for k, v in x.items()}, label)
        raise Unsupported('constant %s of type %s' % (label, type(x).__name__))

    def exc_name(self, cls):
        n = cls.name
        if n.startswith('exceptions:'):
            return n.split(':', 1)[1]
        if ':' in n:
            return n.split(':', 1)[1]
        return n

    def exc_attr(self, ex, exc, attr):
        if attr == 'payload':
            return exc.payload if exc.payload is not None else VOpaque('no-payload')
        raise Unsupported('attribute %s of exception' % attr)

    def spec_name(self, ex, name):
        if name in SPEC_CONSTS:
            return SPEC_CONSTS[name](self)
        if hasattr(self.constants, name) and name.isupper():
            return self.py_to_value(getattr(self.constants, name), name)
        return None

    # ---------------------------------------------------------------------------------------------
    # objects

    def object_attr(self, ex, obj, attr):
        """Attribute that is not a field: a method (bound) or a property of the real class."""
        decl = dsl.CLASSES.get(obj.cls)
        if decl is not None and decl.real.get(self.twin):
            modshort, clsname = decl.real[self.twin].split(':')
            module = self.sources.module(modshort)
            fn = self.find_method(module, clsname, attr)
            if fn is not None:
                fnode, fmod, fcls = fn
                if any(isinstance(d, ast.Name) and d.id == 'property' for d in fnode.decorator_list):
                    return self.call_repo(ex, fmod, '%s.%s' % (fcls, attr), fnode, obj, [], {}, None)
                return VFunc('method', obj, attr)
        if dsl.CONTRACTS.get('%s.%s' % (obj.cls, attr)) is not None:
            return VFunc('method', obj, attr)
        if ex.mode == 'spec':
            raise Unsupported('%s has no field %s' % (obj.cls, attr))
        if decl is None or not decl.real.get(self.twin) or self.real_class_assigns(decl.real[self.twin], attr):
            # the real class does have such an attribute: the sidecar class declaration is stale, nothing is known about the field
            raise Unsupported('%s.%s exists in the source but is not declared in the contract files (stale class declaration)' % (obj.cls, attr))
        raise RaiseSig(VExc('AttributeError'))

    def is_property(self, obj, attr):
        decl = dsl.CLASSES.get(obj.cls)
        if decl is None or not decl.real.get(self.twin):
            return False
        modshort, clsname = decl.real[self.twin].split(':')
        fn = self.find_method(self.sources.module(modshort), clsname, attr)
        return fn is not None and any(isinstance(d, ast.Name) and d.id == 'property' for d in fn[0].decorator_list)

    def check_plain_field(self, ex, obj, attr):
        """A declared field must be a plain instance attribute of the real class.  If the class (or a base inside the package) now
        defines it as a property / descriptor, or intercepts attribute access, reads and writes run code the contracts know nothing about."""
        decl = dsl.CLASSES.get(obj.cls)
        if decl is None or not decl.real.get(self.twin):
            return
        key = (decl.real[self.twin], attr)
        cache = self.__dict__.setdefault('_plain_cache', {})
        if key not in cache:
            modshort, clsname = decl.real[self.twin].split(':')
            module = self.sources.module(modshort)
            problem = None
            seen = set()
            while clsname and clsname not in seen and problem is None:
                seen.add(clsname)
                cls = module.classes.get(clsname)
                if cls is None:
                    break
                for st in cls.body:
                    if isinstance(st, (ast.FunctionDef, ast.AsyncFunctionDef)):
                        if st.name == attr:
                            problem = '%s.%s is a method / property of the real class, not a plain field' % (clsname, attr)
                        elif st.name in ('__setattr__', '__getattr__', '__getattribute__', '__delattr__'):
                            problem = '%s defines %s' % (clsname, st.name)
                    elif isinstance(st, ast.Assign) and any(isinstance(t, ast.Name) and t.id in (attr, '__slots__') for t in st.targets):
                        if any(isinstance(t, ast.Name) and t.id == attr for t in st.targets):
                            problem = '%s.%s is bound in the class body (descriptor?)' % (clsname, attr)
                nxt = None
                for b in cls.bases:
                    if isinstance(b, ast.Name) and b.id in module.classes:
                        nxt = b.id
                clsname = nxt
            cache[key] = problem
        if cache[key]:
            raise Unsupported('field access is no longer plain: ' + cache[key])

    def attr_is_write_only(self, ref, attr):
        """No expression anywhere in the package module of the class reads `<anything>.attr` (an augmented assignment's own target aside)."""
        modshort, clsname = ref.split(':')
        cache = self.__dict__.setdefault('_wo_cache', {})
        key = (modshort, attr)
        if key not in cache:
            ok = True
            for short in ('adb_device', 'adb_device_async', 'hidden_helpers', 'adb_message', modshort):
                try:
                    module = self.sources.module(short)
                except OSError:
                    continue
                for n in ast.walk(module.tree):
                    if isinstance(n, ast.Attribute) and n.attr == attr and isinstance(n.ctx, ast.Load):
                        ok = False
                    if isinstance(n, ast.Call) and isinstance(n.func, ast.Name) and n.func.id in ('getattr', 'vars', 'setattr') :
                        if n.func.id != 'getattr' or (len(n.args) > 1 and isinstance(n.args[1], ast.Constant) and n.args[1].value == attr):
                            ok = False
                    if isinstance(n, ast.Attribute) and n.attr == '__dict__':
                        ok = False
            cache[key] = ok
        return cache[key]

    def real_class_assigns(self, ref, attr):
        """Does any method of the real class (or of a base class inside the package) store to self.<attr>, or the class body bind it?"""
        modshort, clsname = ref.split(':')
        module = self.sources.module(modshort)
        seen = set()
        while clsname and clsname not in seen:
            seen.add(clsname)
            cls = module.classes.get(clsname)
            if cls is None:
                return True          # base outside this module: cannot tell
            for n in ast.walk(cls):
                if isinstance(n, ast.Attribute) and n.attr == attr and isinstance(n.ctx, ast.Store):
                    return True
                if isinstance(n, ast.Name) and n.id == attr and isinstance(n.ctx, ast.Store):
                    return True
            nxt = None
            for b in cls.bases:
                if isinstance(b, ast.Name) and b.id in module.classes:
                    nxt = b.id
                elif not (isinstance(b, ast.Name) and b.id == 'object'):
                    return True
            clsname = nxt
        return False

    def find_method(self, module, clsname, attr):
        """Method lookup through single inheritance inside the package."""
        seen = 0
        while clsname is not None and seen < 5:
            seen += 1
            q = '%s.%s' % (clsname, attr)
            if q in module.funcs:
                return module.funcs[q], module, clsname
            cnode = module.classes.get(clsname)
            if cnode is None or not cnode.bases:
                return None
            b = cnode.bases[0]
            if isinstance(b, ast.Name) and b.id in module.classes:
                clsname = b.id
            else:
                return None
        return None

    def fresh_dict2(self, ex, n):
        return VDict2(z3.Const(n + '.has1', z3.ArraySort(IntS, BoolS)),
                      z3.Const(n + '.has', z3.ArraySort(IntS, z3.ArraySort(IntS, BoolS))),
                      z3.Const(n + '.q', z3.ArraySort(IntS, z3.ArraySort(IntS, PktSeq))))

    # ---------------------------------------------------------------------------------------------
    # locks

    LOCK_LEVEL = {'transport': 2, 'store': 1, 'local_id': 0}

    def lock_acquire(self, ex, lock):
        G = ex.G
        name = lock.name
        fld = 'held_' + name
        if fld not in G.fields:
            raise Unsupported('lock %s has no ghost flag' % name)
        props = {'C06', 'C12'}
        ex.oblige('lock[%s]/not-held@%s' % (name, getattr(ex.cur_node, 'lineno', '?')), z3.Not(G.fields[fld].term), props, 'lock',
                  expr='%s is not already held by this thread of control (non-re-entrant mutex: self-deadlock)' % name)
        for other, lvl in self.LOCK_LEVEL.items():
            if other != name and lvl <= self.LOCK_LEVEL[name] and 'held_' + other in G.fields:
                ex.oblige('lock[%s]/order-vs-%s@%s' % (name, other, getattr(ex.cur_node, 'lineno', '?')), z3.Not(G.fields['held_' + other].term), props, 'lock',
                          expr='lock order: %s (level %d) is never acquired while %s (level %d) is held' % (name, self.LOCK_LEVEL[name], other, lvl))
        ex.assume(z3.Not(G.fields[fld].term))
        G.fields[fld] = VBool(True)
        self.interfere(ex, name)

    def interfere(self, ex, name):
        """Rely step at a lock acquisition (contract key `interference`): other threads of control may have changed the locations
        the lock protects since this one last held it -- havoc them; what the contract declares stable (under its condition,
        evaluated in the pre-acquisition state) keeps its value.  Applied only when deciding the properties it is declared for."""
        itf = getattr(ex.contract, 'interference', {}).get(name)
        if not itf or ex.mode == 'spec':
            return
        if ex.only_props is not None and not (set(itf.get('props', [])) & ex.only_props):
            return
        scope = ex.inv_scope(getattr(ex, 'cur_loop_idx', None), None)
        before = []
        for cond, expr in itf.get('stable', []):
            c = truth(ex.eval_clause_value(cond, scope))
            v = ex.eval_clause_value(expr, scope)
            before.append((c, v, expr))
        roots = dict(scope)
        for path in itf.get('havoc', []):
            ex.havoc_locs(ex.resolve_path(path, roots), label='itf')
        scope = ex.inv_scope(getattr(ex, 'cur_loop_idx', None), None)
        for c, v0, expr in before:
            v1 = ex.eval_clause_value(expr, scope)
            ex.assume(z3.Implies(c, truth(v1) == truth(v0)))

    def lock_release(self, ex, lock):
        ex.G.fields['held_' + lock.name] = VBool(False)

    # ---------------------------------------------------------------------------------------------
    # context managers other than locks

    def context_manager(self, ex, ctx, node):
        if isinstance(ctx, VCtx):
            return ctx.enter, ctx.exit
        raise Unsupported('with on %r at %s' % (ctx, ex.where()))

    # ---------------------------------------------------------------------------------------------
    # calls

    def call(self, ex, node):
        # spec functions (contracts only)
        if ex.mode == 'spec' and isinstance(node.func, ast.Name) and node.func.id in SPEC_FUNCS and node.func.id not in ex.env:
            return SPEC_FUNCS[node.func.id](self, ex, node)
        if isinstance(node.func, ast.Attribute) and isinstance(node.func.value, ast.Name) and node.func.value.id == '_LOGGER' \
                and node.func.value.id not in ex.env:
            self.use('logging')
            for a in list(node.args) + [k.value for k in node.keywords]:
                ex.eval_property_reads(a)    # ... except reads of properties of the package's own classes, which run repository code
            return NONE                      # A-LOG: dropped together with its argument expressions
        if isinstance(node.func, ast.Attribute) and isinstance(node.func.value, ast.Name) and node.func.value.id == 'warnings' and node.func.attr == 'warn':
            self.use('logging')
            return NONE
        if isinstance(node.func, ast.Name) and node.func.id == 'super':
            raise Unsupported('super() outside __init__ delegation')
        # special syntactic forms
        if isinstance(node.func, ast.Name) and node.func.id in ('next', 'sum') and node.func.id not in ex.env and node.args and isinstance(node.args[0], ast.GeneratorExp):
            return self.genexp_reduce(ex, node)
        if isinstance(node.func, ast.Attribute) and node.func.attr == 'join' and len(node.args) == 1:
            sep = ex.eval(node.func.value)
            if isinstance(sep, VBytes):
                return self.bytes_join(ex, sep, node.args[0])
        if isinstance(node.func, ast.Attribute) and node.func.attr == 'run_in_executor':
            # loop.run_in_executor(None, f, *a) == f(*a)   (A-AWAIT; accepted twin difference, listed in C16)
            base = node.func.value
            if isinstance(base, ast.Call) and isinstance(base.func, ast.Name) and base.func.id == 'get_running_loop':
                new = ast.Call(func=node.args[1], args=node.args[2:], keywords=[])
                ast.copy_location(new, node)
                ast.fix_missing_locations(new)
                self.use('run_in_executor')
                return self.call(ex, new)
        if isinstance(node.func, ast.Attribute) and node.func.attr == 'append' and isinstance(node.func.value, ast.Name) \
                and isinstance(ex.env.get(node.func.value.id), (VSeq, VList)) and len(node.args) == 1 and ex.mode == 'code':
            self.use('list.append')
            cur = ex.env[node.func.value.id]
            item = ex.eval(node.args[0])
            ex.env[node.func.value.id] = self.list_append(ex, cur, item)
            return NONE
        f = ex.eval(node.func)
        args = []
        for a in node.args:
            if isinstance(a, ast.Starred):
                raise Unsupported('*args in call')
            args.append(ex.eval(a))
        kwargs = {}
        for kw in node.keywords:
            if kw.arg is None:
                raise Unsupported('**kwargs in call')
            kwargs[kw.arg] = ex.eval(kw.value)
        return self.apply(ex, f, args, kwargs, node)

    def apply(self, ex, f, args, kwargs, node):
        if isinstance(f, VFunc):
            if f.how == 'lib':
                return self.call_lib(ex, f.info[0], args, kwargs, node)
            if f.how == 'repo':
                modshort, qual = f.info
                module = self.sources.module(modshort)
                return self.call_repo(ex, module, qual, module.funcs[qual], None, args, kwargs, node)
            if f.how == 'method':
                base, name = f.info
                return self.call_method(ex, base, name, args, kwargs, node)
        if isinstance(f, VClass):
            return self.instantiate(ex, f, args, kwargs, node)
        if isinstance(f, VOpaque):
            c = dsl.CONTRACTS.get('%s.__call__' % f.tag)
            if c is None:
                raise Unsupported('call of opaque %s without a contract' % f.tag)
            bound = ex.bind_args(c, None, f, args, kwargs)
            return ex.call_contract(c, bound, node)
        if isinstance(f, VOpt):
            inner = ex.nonnull(f, 'call')
            return self.apply(ex, inner, args, kwargs, node)
        raise Unsupported('call of %r at %s' % (f, ex.where()))

    def list_append(self, ex, cur, item):
        if isinstance(cur, VList):
            return VList(cur.items + [item])
        if cur.comps is None:
            raise Unsupported('append to a derived list')
        flat = flatten_value(item)
        if len(flat) != len(cur.comps):
            raise Unsupported('append: element shape does not match the list')
        comps = [z3.Store(c, cur.length, t) for c, t in zip(cur.comps, flat)]
        n = ex.fresh_name('appended')
        new = ex.mk_seq(cur.etype, n, cur.length + 1)
        # re-point the fresh arrays at the stored ones
        for fresh_c, stored in zip(new.comps, comps):
            ex.assume(fresh_c == stored)
        return new

    def contract_for_repo_func(self, f):
        modshort, qual = f.info
        return self.real_index.get('%s:%s' % (modshort, qual))

    def contract_for_class_init(self, cls):
        d = self.class_index.get(cls.name)
        if d is None:
            return None
        return dsl.CONTRACTS.get('%s.__init__' % d.name)

    def synth_contract_for_inline(self, ex, obj, attr):
        return None

    def call_repo(self, ex, module, qual, fnode, recv, args, kwargs, node):
        short = module.name.split('.', 1)[1]
        ref = '%s:%s' % (short, qual)
        c = self.real_index.get(ref)
        if c is not None and not c.inline and not (c is ex.contract and False):
            bound = ex.bind_args(c, fnode, recv, args, kwargs, module)
            if c.gen is not None:
                return VGen(c, bound)
            return ex.call_contract(c, bound, node)
        # no contract: a small helper of the package -> its body is executed in place
        bound = ex.bind_args(None, fnode, recv, args, kwargs, module)
        if any(isinstance(n, (ast.Yield, ast.YieldFrom)) for n in ast.walk(fnode)):
            if any(isinstance(d, ast.Name) and d.id in ('contextmanager', 'asynccontextmanager') for d in fnode.decorator_list):
                return self.inline_contextmanager(ex, module, fnode, bound)
            g = VGen(None, bound)
            g.state['fn'] = (module, fnode)
            return g
        return self.inline(ex, module, fnode, bound)

    def inline(self, ex, module, fnode, bound, in_init=False):
        depth = getattr(ex, 'inline_depth', 0)
        if depth > 6:
            raise Unsupported('inlining too deep (recursion?) at %s' % fnode.name)
        saved = (ex.env, ex.cur_module, ex.fn_node, getattr(ex, 'in_init', False), ex.cur_node)
        ex.env, ex.cur_module, ex.fn_node, ex.in_init = dict(bound), module, fnode, in_init
        ex.inline_depth = depth + 1
        try:
            try:
                ex.exec_block(fnode.body)
                return NONE
            except ReturnSig as r:
                return r.value
        finally:
            ex.inline_depth = depth
            ex.env, ex.cur_module, ex.fn_node, ex.in_init, ex.cur_node = saved

    def inline_contextmanager(self, ex, module, fnode, bound):
        """@contextmanager def f(...): yield <expr>   ->  a context whose `as` value is <expr> and whose exit does nothing."""
        body = [s for s in fnode.body if not (isinstance(s, ast.Expr) and isinstance(s.value, ast.Constant))]
        if len(body) != 1 or not (isinstance(body[0], ast.Expr) and isinstance(body[0].value, ast.Yield)):
            raise Unsupported('context manager %s is not a single yield' % fnode.name)
        world = self

        def enter():
            saved = (ex.env, ex.cur_module)
            ex.env, ex.cur_module = dict(bound), module
            try:
                return ex.eval(body[0].value.value)
            finally:
                ex.env, ex.cur_module = saved
        return VCtx(enter, lambda exc: None)

    def instantiate(self, ex, cls, args, kwargs, node):
        name = cls.name
        if name.startswith('exceptions:') or name in self.BUILTIN_CLASSES or name in ('struct.error', 'asyncio.TimeoutError', 'usb1.USBError', 'io.UnsupportedOperation'):
            payload = args[0] if args else None
            return VExc(self.exc_name(cls), payload)
        if name == 'lib:namedtuple':
            if kwargs:
                raise Unsupported('namedtuple keyword construction')
            return VTuple(args)
        if name == 'lib:Lock':
            return VLock(None)
        if name == 'lib:Queue':
            self.use('Queue')
            return VQueue(z3.Empty(PktSeq))
        d = self.class_index.get(name)
        if d is None:
            if name.startswith('hidden_helpers:DeviceFile') or name.endswith(':DeviceFile'):
                return VTuple(args)
            raise Unsupported('instantiation of undeclared class %s at %s' % (name, ex.where()))
        modshort, clsname = name.split(':')
        module = self.sources.module(modshort)
        obj = VObj(d.name)
        c = dsl.CONTRACTS.get('%s.__init__' % d.name)
        found = self.find_method(module, clsname, '__init__')
        if c is not None and not c.inline:
            for f, t in d.fields.items():
                obj.fields[f] = ex.fresh(t, '%s.%s' % (d.name, f))
            fnode = found[0] if found else None
            bound = ex.bind_args(c, fnode, obj, args, kwargs, module)
            ex.call_contract(c, bound, node)
            return obj
        if found is None:
            raise Unsupported('class %s has no __init__' % name)
        fnode, fmod, fcls = found
        bound = ex.bind_args(None, fnode, obj, args, kwargs, fmod)
        self.inline(ex, fmod, fnode, bound, in_init=True)
        missing = [f for f in d.fields if f not in obj.fields]
        if missing:
            raise Unsupported('__init__ of %s does not set declared fields %s' % (name, missing))
        return obj

    def call_method(self, ex, base, name, args, kwargs, node):
        if isinstance(base, VOpt):
            base = ex.nonnull(base, 'method call .%s' % name)
        if isinstance(base, VObj):
            c = dsl.CONTRACTS.get('%s.%s' % (base.cls, name))
            d = dsl.CLASSES.get(base.cls)
            fn = None
            if d is not None and d.real.get(self.twin):
                modshort, clsname = d.real[self.twin].split(':')
                module = self.sources.module(modshort)
                fn = self.find_method(module, clsname, name)
            if c is not None and not c.inline:
                bound = ex.bind_args(c, fn[0] if fn else None, base, args, kwargs, fn[1] if fn else None)
                if c.gen is not None:
                    return VGen(c, bound)
                return ex.call_contract(c, bound, node)
            if fn is None:
                raise Unsupported('no contract and no source for %s.%s at %s' % (base.cls, name, ex.where()))
            fnode, fmod, fcls = fn
            return self.call_repo(ex, fmod, '%s.%s' % (fcls, name), fnode, base, args, kwargs, node)
        if isinstance(base, VOpaque):
            if base.tag == 'logger':
                self.use('logging')
                return NONE
            c = dsl.CONTRACTS.get('%s.%s' % (base.tag, name))
            if c is None:
                raise Unsupported('method %s of opaque %s has no contract at %s' % (name, base.tag, ex.where()))
            bound = ex.bind_args(c, None, base, args, kwargs)
            return ex.call_contract(c, bound, node)
        h = METHODS.get((type(base).__name__, name))
        if h is not None:
            return h(self, ex, base, args, kwargs, node)
        raise Unsupported('method %s on %r at %s' % (name, base, ex.where()))

    def call_lib(self, ex, name, args, kwargs, node):
        h = BUILTINS.get(name)
        if h is None:
            c = dsl.CONTRACTS.get(name)
            if c is not None:
                bound = ex.bind_args(c, None, None, args, kwargs)
                return ex.call_contract(c, bound, node)
            raise Unsupported('library function %s has no axiom at %s' % (name, ex.where()))
        return h(self, ex, args, kwargs, node)

    # ---------------------------------------------------------------------------------------------
    # bytes formatting / join

    def percent_format(self, ex, fmt, arg):
        self.use('bytes.%')
        c = fmt.concrete()
        if c is None:
            raise Unsupported('symbolic format string')
        if isinstance(fmt, VStr):
            # text messages: opaque (A-MSG)
            return VStr(z3.Const(ex.fresh_name('msg'), Bytes))
        items = arg.items if isinstance(arg, VTuple) else [arg]
        parts = c.split(b'%s')
        if b'%' in b''.join(parts):
            raise Unsupported('format directive other than %%s in %r' % (c,))
        if len(parts) - 1 != len(items):
            raise RaiseSig(VExc('TypeError'))
        out = []
        for k, p in enumerate(parts):
            if p:
                out.append(bytes_const(p))
            if k < len(items):
                it = items[k]
                if isinstance(it, VOpt):
                    it = ex.nonnull(it, '%s argument')
                if not isinstance(it, VBytes):
                    raise RaiseSig(VExc('TypeError'))      # b'%s' % str is a TypeError in Python 3
                out.append(it.term)
        return VBytes(z3.Concat(*out) if len(out) > 1 else (out[0] if out else EMPTY), False)

    def bytes_join(self, ex, sep, arg_node):
        self.use('bytes.join')
        if sep.concrete() != b'':
            raise Unsupported('join with a non-empty separator')
        it = ex.eval(arg_node) if not isinstance(arg_node, ast.GeneratorExp) else self.generator_expression(ex, arg_node)
        if isinstance(it, VGen):
            return self.join_generator(ex, it)
        if isinstance(it, (VList, VTuple)):
            terms = []
            for x in it.items:
                if not isinstance(x, VBytes):
                    raise RaiseSig(VExc('TypeError'))
                terms.append(x.term)
            return VBytes(z3.Concat(*terms) if len(terms) > 1 else (terms[0] if terms else EMPTY), False)
        raise Unsupported('join over %r' % (it,))

    # ---------------------------------------------------------------------------------------------
    # generators

    def generator_expression(self, ex, node):
        """(elt for x in <generator>)  ->  the generator with a per-element map."""
        if len(node.generators) != 1 or node.generators[0].ifs:
            raise Unsupported('generator expression shape at %s' % ex.where())
        comp = node.generators[0]
        src = ex.eval(comp.iter)
        if isinstance(src, VGen):
            if isinstance(node.elt, ast.Name) and isinstance(comp.target, ast.Name) and node.elt.id == comp.target.id:
                return src
            env0 = dict(ex.env)
            module = ex.cur_module
            inner = src.mapper

            def mapper(v, comp=comp, node=node):
                if inner is not None:
                    v = inner(v)
                saved = (ex.env, ex.cur_module)
                ex.env, ex.cur_module = dict(env0), module
                try:
                    ex.assign(comp.target, v)
                    return ex.eval(node.elt)
                finally:
                    ex.env, ex.cur_module = saved
            g = VGen(src.contract, src.binding, mapper)
            g.state = src.state
            return g
        raise Unsupported('generator expression over %r' % (src,))

    def list_comprehension(self, ex, node):
        if len(node.generators) != 1 or node.generators[0].ifs:
            raise Unsupported('list comprehension shape')
        comp = node.generators[0]
        src = ex.eval(comp.iter)
        if isinstance(src, VGen):
            # [x async for x in gen]  ==  the generator run to exhaustion (accepted twin difference, C16)
            return self.generator_expression(ex, node)
        if isinstance(src, VSeq):
            # [f(x) for x in lst] : a list of the same length, element i = f(lst[i])
            env0 = dict(ex.env)
            module = ex.cur_module

            def elem(i, comp=comp, node=node, src=src):
                saved = (ex.env, ex.cur_module, ex.mode)
                ex.env, ex.cur_module, ex.mode = dict(env0), module, 'code'
                try:
                    ex.assign(comp.target, src.elem(i))
                    return ex.eval(node.elt)
                finally:
                    ex.env, ex.cur_module, ex.mode = saved
            probe = elem(z3.Int('__probe_i'))
            return VSeq(src.length, elem, 'mapped', None)
        if isinstance(src, (VList, VTuple)):
            out = []
            for x in src.items:
                saved = dict(ex.env)
                ex.assign(comp.target, x)
                out.append(ex.eval(node.elt))
                ex.env = saved
            return VList(out)
        raise Unsupported('list comprehension over %r' % (src,))

    def gen_scope(self, ex, g, n_yields):
        scope = dict(g.binding)
        scope['G'] = ex.G
        scope['_n'] = VInt(n_yields)
        return scope

    def run_generator_to_end(self, ex, g, node=None):
        """Use the exhaust contract of generator g: returns (m, elem_fn) where elem_fn(i) is the i-th yielded value."""
        c = g.contract
        if c is None:
            raise Unsupported('generator without a contract run to exhaustion')
        bound = g.binding
        for p, t in c.params.items():
            if p in bound:
                bound[p] = ex.coerce_arg(bound[p], t)
        site = '%s@%s' % (c.key, getattr(ex.cur_node, 'lineno', '?'))
        scope = dict(bound)
        scope['G'] = ex.G
        for cl in c.requires:
            f = ex.eval_clause(cl, scope)
            ex.oblige('call[%s]/%s' % (site, cl.label), f, ex.props_of(cl, ex.contract) | (cl.props or set()), 'pre', expr=cl.expr)
            ex.assume(f)
        old = ex.snapshot()
        old_bound = dict(bound)
        m = z3.Int(ex.fresh_name('_n'))
        ex.assume(m >= 0)
        g.state['old'], g.state['old_bound'] = old, old_bound
        event = {'callee': c.key, 'site': site, 'args': dict(bound), 'outcome': None, 'yields': m}
        ex.trace.append(event)

        def elem(i):
            sc = dict(old_bound)
            sc['G'] = ex.G
            sc['_i'] = VInt(i)
            saved = (ex.old_snap, ex.old_env)
            ex.old_snap, ex.old_env = old, old_bound
            try:
                with ex._Old(ex, old):
                    v = self.eval_in(ex, c.gen['elem'], sc)
            finally:
                ex.old_snap, ex.old_env = saved
            if g.mapper is not None:
                v = g.mapper(v)
            return v

        def effects(clauses):
            locs = []
            for mm in c.modifies:
                locs.extend(ex.resolve_path(mm, bound))
            ex.havoc_locs(locs)
            sc = dict(bound)
            sc['G'] = ex.G
            sc['_n'] = VInt(m)
            saved = (ex.old_snap, ex.old_env)
            ex.old_snap, ex.old_env = old, old_bound
            try:
                for cl in clauses:
                    ex.assume(ex.eval_clause(cl, sc))
            finally:
                ex.old_snap, ex.old_env = saved
        raised = None
        for cls, clauses in c.raises.items():
            if ex.choose('%s.raises.%s' % (c.key, cls)):
                effects(clauses)
                raised = VExc(cls.rstrip('+') if cls != '*' else 'AnyError')
                event['outcome'] = ('raise', raised.cls)
                break
        if raised is None:
            effects(list(c.ensures) + list(c.defines))
            event['outcome'] = ('return', None)
        event['post'] = ex.capture_modified(c, bound)
        joined = None
        if 'joined' in c.gen:
            sc = dict(old_bound)
            sc['G'] = ex.G
            sc['_n'] = VInt(m)
            saved = (ex.old_snap, ex.old_env)
            ex.old_snap, ex.old_env = old, old_bound
            try:
                with ex._Old(ex, old):
                    joined = self.eval_in(ex, c.gen['joined'], sc)
            finally:
                ex.old_snap, ex.old_env = saved
        return m, elem, raised, joined

    def eval_in(self, ex, text, scope):
        saved = (ex.env, ex.mode)
        ex.env, ex.mode = scope, 'spec'
        try:
            return ex.eval(ast.parse(text.strip(), mode='eval').body)
        finally:
            ex.env, ex.mode = saved

    def join_generator(self, ex, g):
        m, elem, raised, joined = self.run_generator_to_end(ex, g)
        if raised is not None:
            raise RaiseSig(raised)
        if g.mapper is not None or joined is None:
            raise Unsupported('join over a mapped generator / generator without a `joined` spec')
        return joined

    def yield_from(self, ex, g):
        """`yield from g` inside a generator under contract: every element g yields is yielded by the caller."""
        c = ex.contract
        m, elem, raised, joined = self.run_generator_to_end(ex, g)
        k = z3.Int(ex.fresh_name('_k'))
        v = elem(k)
        scope = ex.spec_scope(ex.entry_params, None, None)
        scope.update({kk: x for kk, x in ex.env.items() if kk not in scope})
        scope['value'] = v
        scope['_yi'] = VInt(ex.yield_index.term + k)
        guard = z3.And(k >= 0, k < m)
        # what the callee guarantees of its k-th element (proved at its own yields)
        gc = g.contract
        fsc = dict(g.binding)
        fsc['G'] = ex.G
        fsc['_i'] = VInt(k)
        fsc['value'] = v
        for text in gc.gen.get('facts', []):
            saved = (ex.old_snap, ex.old_env)
            ex.old_snap, ex.old_env = g.state['old'], g.state['old_bound']
            try:
                with ex._Old(ex, g.state['old']):
                    f = truth(self.eval_in(ex, text, fsc))
            finally:
                ex.old_snap, ex.old_env = saved
            ex.assume(z3.Implies(guard, f))
        for cl in c.on_yield:
            f = ex.eval_clause(cl, scope)
            ex.oblige('yield-from/%s' % cl.label, z3.Implies(guard, f), ex.props_of(cl, c), 'yield', expr=cl.expr)
        ex.yield_index = VInt(ex.yield_index.term + m)
        if raised is not None:
            raise RaiseSig(raised)

    def for_over_generator(self, ex, st, g):
        # `for x in g: yield x`  ==  `yield from g`   (accepted twin difference, C16)
        body = [s for s in st.body]
        if (len(body) == 1 and isinstance(body[0], ast.Expr) and isinstance(body[0].value, ast.Yield)
                and isinstance(body[0].value.value, ast.Name) and isinstance(st.target, ast.Name)
                and body[0].value.value.id == st.target.id and not st.orelse):
            return self.yield_from(ex, g)
        if g.contract is not None or 'fn' not in g.state:
            raise Unsupported('for over a contracted generator with a general body at %s' % ex.where())
        # un-contracted generator of the package: its body is run in place, each `yield v` runs the loop body with target = v
        module, fnode = g.state['fn']
        saved_fn = ex.fn_node
        ex.fn_node = ex.top_fn_node
        ordinal = ex.loop_ordinal(st)
        ex.fn_node = saved_fn
        for n in ast.walk(fnode):
            if isinstance(n, (ast.While, ast.For)):
                n._pyvc_ordinal = ordinal
        consumer_env = ex.env
        consumer = (ex.cur_module, ex.fn_node)

        class GenBreak(Exception):
            pass

        def hook(v):
            saved = (ex.env, ex.cur_module, ex.fn_node)
            gen_env = ex.env
            ex.env, ex.cur_module, ex.fn_node = consumer_env, consumer[0], consumer[1]
            try:
                ex.assign(st.target, v)
                try:
                    ex.exec_block(st.body)
                except BreakSig:
                    raise GenBreak()
                except ContinueSig:
                    pass
            finally:
                ex.env, ex.cur_module, ex.fn_node = saved
        ex.yield_hooks = getattr(ex, 'yield_hooks', [])
        ex.yield_hooks.append((hook, st, consumer_env))
        try:
            try:
                self.inline(ex, module, fnode, g.binding)
            except GenBreak:
                return
        finally:
            ex.yield_hooks.pop()
        ex.exec_block(st.orelse)

    # ---------------------------------------------------------------------------------------------
    # next(genexp, default) / sum(genexp) over dict items

    def genexp_reduce(self, ex, node):
        h = self.hooks.get('genexp_reduce')
        if h is None:
            raise Unsupported('next/sum over a generator expression at %s' % ex.where())
        return h(self, ex, node)

    # defaults for the remaining hooks
    def subscript_load(self, ex, base, node):
        if isinstance(base, VConstDict):
            key = ex.eval(node.slice)
            return base.lookup(ex, key, strict=True)
        if isinstance(base, VMap):
            i = to_int(ex.eval(node.slice))
            r = z3.Select(base.arr, i)
            return wrap_term(r)
        h = self.hooks.get('subscript_load')
        return h(self, ex, base, node) if h else NotImplemented

    def subscript_store(self, ex, base, target, v):
        h = self.hooks.get('subscript_store')
        return h(self, ex, base, target, v) if h else NotImplemented

    def subscript_delete(self, ex, base, target):
        h = self.hooks.get('subscript_delete')
        return h(self, ex, base, target) if h else NotImplemented

    def contains(self, ex, coll, x):
        if isinstance(coll, VConstDict):
            return coll.has(x)
        h = self.hooks.get('contains')
        return h(self, ex, coll, x) if h else NotImplemented

    def binop(self, ex, op, a, b, node):
        return NotImplemented

    def cmdset_union(self, ex, a, b):
        a = self.coerce(ex, a, 'cmdset')
        b = self.coerce(ex, b, 'cmdset')
        return VCmdSet({k: z3.Or(a.bits[k], b.bits[k]) for k in a.bits})

    def spec_lambda(self, ex, node):
        raise Unsupported('lambda in contract')


def flatten_value(v):
    if isinstance(v, VTuple):
        out = []
        for x in v.items:
            out.extend(flatten_value(x))
        return out
    if isinstance(v, (VInt, VBytes, VStr, VBool, VReal)):
        return [v.term]
    if isinstance(v, VOpaque) and v.term is not None:
        return [v.term]
    raise Unsupported('cannot flatten %r' % (v,))


def wrap_term(t):
    s = t.sort()
    if s == IntS:
        return VInt(t)
    if s == BoolS:
        return VBool(t)
    if s == RealS:
        return VReal(t)
    if s == Bytes:
        return VBytes(t, False)
    raise Unsupported('cannot wrap term of sort %s' % s)


class VCtx(V):
    kind = 'ctx'

    def __init__(self, enter, exit_):
        self.enter = enter
        self.exit = exit_


class VConstDict(V):
    """A module-level constant dict with concrete keys (constants.WIRE_TO_ID ...)."""
    kind = 'constdict'

    def __init__(self, table, label):
        self.table = table
        self.label = label

    def _key_terms(self):
        out = []
        for k, v in self.table.items():
            if isinstance(k, bytes):
                out.append((VBytes(k), v))
            elif isinstance(k, int):
                out.append((VInt(k), v))
            elif isinstance(k, str):
                out.append((VStr(k), v))
            else:
                raise Unsupported('dict key %r' % (k,))
        return out

    def has(self, key):
        ks = self._key_terms()
        return z3.Or(*[veq(key, k) for k, _ in ks]) if ks else z3.BoolVal(False)

    def lookup(self, ex, key, strict, default=None):
        ks = self._key_terms()
        present = self.has(key)
        if strict:
            if ex.mode != 'spec' and not ex.branch(present):
                raise RaiseSig(VExc('KeyError'))
            cur = ks[-1][1]
            for k, v in reversed(ks[:-1]):
                cur = merge(veq(key, k), v, cur)
            return cur
        cur = default if default is not None else NONE
        for k, v in reversed(ks):
            cur = merge(veq(key, k), v, cur)
        return cur


# the packet datatype of the store's queues
Pkt = z3.Datatype('Pkt')
Pkt.declare('pkt', ('cmd', Bytes), ('data', Bytes))
Pkt = Pkt.create()
PktSeq = z3.SeqSort(Pkt)


# =================================================================================================
# builtins and library axioms

def _need(args, n, name):
    if len(args) != n:
        raise Unsupported('%s with %d arguments' % (name, len(args)))


def bi_len(w, ex, args, kwargs, node):
    w.use('len')
    _need(args, 1, 'len')
    v = args[0]
    if isinstance(v, VOpt):
        v = ex.nonnull(v, 'len')
    if isinstance(v, VBytes):
        return VInt(z3.Length(v.term))
    if isinstance(v, VStr):
        if ex.mode == 'spec':
            return VInt(z3.Length(v.term))      # contracts speak about the UTF-8 length
        raise Unsupported('len of a str (code points are not modelled)')
    if isinstance(v, (VTuple, VList)):
        return VInt(len(v.items))
    if isinstance(v, VSeq):
        return VInt(v.length)
    if isinstance(v, VQueue):
        return VInt(z3.Length(v.items))
    if isinstance(v, VNone):
        raise RaiseSig(VExc('TypeError'))
    raise Unsupported('len of %r' % (v,))


def _minmax(is_min):
    def f(w, ex, args, kwargs, node):
        w.use('min/max')
        if len(args) < 2:
            raise Unsupported('min/max of an iterable')
        vals = []
        for a in args:
            if isinstance(a, VOpt):
                a = ex.nonnull(a, 'min/max')
            if isinstance(a, VNone):
                raise RaiseSig(VExc('TypeError'))
            vals.append(a)
        cur = vals[0]
        for nxt in vals[1:]:
            if isinstance(cur, VInt) and isinstance(nxt, VInt):
                c = (nxt.term < cur.term) if is_min else (nxt.term > cur.term)
                cur = VInt(z3.If(c, nxt.term, cur.term))
            else:
                x, y = to_real(cur), to_real(nxt)
                c = (y < x) if is_min else (y > x)
                cur = VReal(z3.If(c, y, x))
        return cur
    return f


def bi_int(w, ex, args, kwargs, node):
    w.use('int')
    _need(args, 1, 'int')
    v = args[0]
    if isinstance(v, VOpt):
        v = ex.nonnull(v, 'int()')
    if isinstance(v, VInt):
        return v
    if isinstance(v, VBool):
        return VInt(to_int(v))
    if isinstance(v, VReal):
        # int() truncates toward zero
        return VInt(z3.If(v.term >= 0, z3.ToInt(v.term), -z3.ToInt(-v.term)))
    raise Unsupported('int(%r)' % (v,))


def bi_bool(w, ex, args, kwargs, node):
    _need(args, 1, 'bool')
    return VBool(truth(args[0]))


def bi_bytes(w, ex, args, kwargs, node):
    w.use('bytes()')
    if not args:
        return VBytes(b'', False)
    v = args[0]
    if isinstance(v, VBytes) and len(args) == 1:
        return VBytes(v.term, False)
    raise Unsupported('bytes(%r)' % (v,))


def bi_bytearray(w, ex, args, kwargs, node):
    w.use('bytes()')
    if not args:
        return VBytes(b'', True)
    v = args[0]
    if isinstance(v, VBytes) and len(args) == 1:
        return VBytes(v.term, True)
    if isinstance(v, VInt) and len(args) == 1:
        if ex.mode != 'spec' and not ex.branch(v.term >= 0):
            raise RaiseSig(VExc('ValueError'))
        return VBytes(SF.zeros(v.term), True)
    if isinstance(v, VStr) and len(args) == 2:
        enc = args[1].concrete() if isinstance(args[1], VStr) else None
        if enc in ('utf-8', 'utf8'):
            return VBytes(v.term, True)
    if isinstance(v, VOpt):
        inner = ex.nonnull(v, 'bytearray()')
        return bi_bytearray(w, ex, [inner] + list(args[1:]), kwargs, node)
    raise Unsupported('bytearray(%r)' % (args,))


def bi_isinstance(w, ex, args, kwargs, node):
    w.use('isinstance')
    _need(args, 2, 'isinstance')
    v, cls = args
    classes = cls.items if isinstance(cls, (VTuple, VList)) else [cls]
    names = []
    for c in classes:
        if isinstance(c, VFunc) and c.how == 'lib':
            names.append(c.info[0])
        elif isinstance(c, VClass):
            names.append(c.name)
        else:
            raise Unsupported('isinstance against %r' % (c,))
    if isinstance(v, VOpt):
        # Optional[T]: decided per branch
        if ex.branch(v.isnone):
            return VBool(False)
        v = v.val
    return VBool(any(_isinstance(w, v, n) for n in names))


def _isinstance(w, v, n):
    if n == 'bytes':
        return isinstance(v, VBytes) and not v.ba
    if n == 'bytearray':
        return isinstance(v, VBytes) and v.ba
    if n == 'str':
        return isinstance(v, VStr)
    if n == 'int':
        return isinstance(v, (VInt, VBool))
    if n == 'lib:BytesIO':
        return (isinstance(v, VObj) and v.cls == 'BytesIO') or (isinstance(v, VOpaque) and v.tag == 'Mem')
    if isinstance(v, VNone):
        return False
    if isinstance(v, VObj):
        d = dsl.CLASSES.get(v.cls)
        bases = set(getattr(d, 'isa', ())) if d else set()
        if d is not None:
            real = d.real.get(w.twin)
            if real == n:
                return True
            return n in w.class_bases(v.cls)
        return False
    if isinstance(v, (VInt, VBool, VReal, VBytes, VStr, VTuple, VList, VOpaque)):
        return False
    raise Unsupported('isinstance(%r, %s)' % (v, n))


def _class_bases(self, cls):
    d = dsl.CLASSES.get(cls)
    return set(getattr(d, 'bases', ()) or ())


World.class_bases = _class_bases


def bi_pow(w, ex, args, kwargs, node):
    """pow(x, y) == x ** y ; pow(x, y, m) == (x ** y) % m  (exact for concrete non-negative exponents; the modulus may be symbolic)."""
    w.use('pow')
    if len(args) not in (2, 3) or kwargs:
        raise Unsupported('pow() call shape')
    x, y = to_int(args[0]), to_int(args[1])
    xc, yc = VInt(x).concrete(), VInt(y).concrete()
    if xc is None or yc is None or yc < 0:
        raise Unsupported('symbolic power')
    v = xc ** yc
    if len(args) == 2:
        return VInt(v)
    m = to_int(args[2])
    mc = VInt(m).concrete()
    if mc is not None:
        if mc == 0:
            raise RaiseSig(VExc('ValueError'))
        return VInt(v % mc)
    if ex.mode != 'spec' and ex.branch(m == 0):
        raise RaiseSig(VExc('ValueError'))
    return VInt(SF.PYMOD(z3.IntVal(v), m))


def bi_sum(w, ex, args, kwargs, node):
    w.use('sum')
    _need(args, 1, 'sum')
    v = args[0]
    if isinstance(v, VBytes):
        return VInt(SF.bsum(v.term))
    raise Unsupported('sum(%r)' % (v,))


def bi_hasattr(w, ex, args, kwargs, node):
    v, name = args
    n = name.concrete()
    if isinstance(v, VInt) and n == 'to_bytes':
        return VBool(True)
    raise Unsupported('hasattr(%r, %r)' % (v, n))


def bi_ord(w, ex, args, kwargs, node):
    raise Unsupported('ord()')


def bi_str(w, ex, args, kwargs, node):
    raise Unsupported('str()')


def bi_struct_pack(w, ex, args, kwargs, node):
    w.use('struct.pack')
    fmt = args[0]
    n, kinds = _parse_fmt(fmt)
    vals = args[1:]
    if len(vals) != len(kinds):
        raise RaiseSig(VExc('struct.error'))
    out = []
    for k, v in zip(kinds, vals):
        if k in ('I', 'i'):
            if isinstance(v, VOpt):
                if ex.branch(v.isnone):
                    raise RaiseSig(VExc('struct.error'))
                v = v.val
            if isinstance(v, VNone) or not isinstance(v, (VInt, VBool)):
                raise RaiseSig(VExc('struct.error'))
            x = to_int(v)
            lo, hi = (0, TWO32) if k == 'I' else (-(2 ** 31), 2 ** 31)
            if ex.mode != 'spec':
                if not ex.branch(z3.And(x >= lo, x < hi)):
                    raise RaiseSig(VExc('struct.error'))
            out.append(SF.le32(x if k == 'I' else z3.If(x < 0, x + 2 ** 32, x)))
        else:
            size = k[1]
            if not isinstance(v, VBytes):
                raise RaiseSig(VExc('struct.error'))
            # 'Ns': truncated / zero padded to N bytes
            ln = z3.Length(v.term)
            if ex.cheap_entails(ln == size):
                out.append(v.term)
            else:
                out.append(z3.If(ln >= size, z3.SubSeq(v.term, 0, size), z3.Concat(v.term, SF.zeros(size - ln))))
    return VBytes(z3.Concat(*out) if len(out) > 1 else out[0], False)


def _parse_fmt(fmt):
    c = fmt.concrete() if isinstance(fmt, (VBytes, VStr)) else None
    if c is None:
        raise Unsupported('symbolic struct format')
    if isinstance(c, bytes):
        c = c.decode('ascii')
    if not c.startswith('<'):
        raise Unsupported('struct format %r (only little-endian standard sizes are axiomatised)' % c)
    kinds = []
    num = ''
    for ch in c[1:]:
        if ch.isdigit():
            num += ch
            continue
        cnt = int(num) if num else 1
        num = ''
        if ch in 'IL':
            kinds.extend(['I'] * cnt)
        elif ch in 'il':
            kinds.extend(['i'] * cnt)
        elif ch == 's':
            kinds.append(('s', cnt))
        else:
            raise Unsupported('struct format char %r' % ch)
    size = sum(4 if k in ('I', 'i') else k[1] for k in kinds)
    return size, kinds


def bi_struct_unpack(w, ex, args, kwargs, node):
    w.use('struct.unpack')
    fmt, data = args
    size, kinds = _parse_fmt(fmt)
    if isinstance(data, VOpt):
        data = ex.nonnull(data, 'struct.unpack')
    if not isinstance(data, VBytes):
        raise RaiseSig(VExc('TypeError'))
    if ex.mode != 'spec':
        if not ex.branch(z3.Length(data.term) == size):
            raise RaiseSig(VExc('struct.error'))
    out = []
    off = 0
    for k in kinds:
        if k in ('I', 'i'):
            u = SF.unle32(ex.slice_term(data.term, z3.IntVal(off), z3.IntVal(off + 4)))
            out.append(VInt(u if k == 'I' else z3.If(u >= 2 ** 31, u - 2 ** 32, u)))      # 'i': two's complement
            off += 4
        else:
            out.append(VBytes(ex.slice_term(data.term, z3.IntVal(off), z3.IntVal(off + k[1])), False))
            off += k[1]
    return VTuple(out)


def bi_struct_unpack_from(w, ex, args, kwargs, node):
    """struct.unpack_from(fmt, buffer, offset=0): needs len(buffer) - offset >= size (offset >= 0), reads buffer[offset:offset+size]."""
    w.use('struct.unpack_from')
    fmt, data = args[0], args[1]
    offset = args[2] if len(args) > 2 else kwargs.get('offset', VInt(0))
    size, kinds = _parse_fmt(fmt)
    if isinstance(data, VOpt):
        data = ex.nonnull(data, 'struct.unpack_from')
    if not isinstance(data, VBytes):
        raise RaiseSig(VExc('TypeError'))
    off0 = to_int(offset)
    if ex.mode != 'spec':
        # negative offsets count from the end in CPython; only the non-negative case is axiomatised
        if not ex.branch(off0 >= 0):
            raise Unsupported('struct.unpack_from with a negative offset')
        if not ex.branch(z3.Length(data.term) - off0 >= size):
            raise RaiseSig(VExc('struct.error'))
    out = []
    off = 0
    for k in kinds:
        n = 4 if k in ('I', 'i') else k[1]
        piece = ex.slice_term(data.term, off0 + off, off0 + off + n)
        if k == 'I':
            out.append(VInt(SF.unle32(piece)))
        elif k == 'i':
            u = SF.unle32(piece)
            out.append(VInt(z3.If(u >= 2 ** 31, u - 2 ** 32, u)))
        else:
            out.append(VBytes(piece, False))
        off += n
    return VTuple(out)


def bi_struct_calcsize(w, ex, args, kwargs, node):
    w.use('struct.calcsize')
    size, kinds = _parse_fmt(args[0])
    return VInt(size)


def bi_time_time(w, ex, args, kwargs, node):
    w.use('time.time')
    G = ex.G
    d = z3.Real(ex.fresh_name('cpu_d'))
    ex.assume(d >= 0)
    G.fields['now'] = VReal(G.fields['now'].term + d)
    G.fields['cpu'] = VReal(G.fields['cpu'].term + d)
    # A-EPOCH: the current time is a non-negative number of seconds that fits 32 bits (until 2106)
    ex.assume(z3.And(G.fields['now'].term >= 0, G.fields['now'].term < TWO32 - 1))
    return G.fields['now']


def bi_contextmanager(w, ex, args, kwargs, node):
    return args[0]


def bi_gethostname(w, ex, args, kwargs, node):
    w.use('os')
    if ex.choose('gethostname-raises'):
        raise RaiseSig(VExc('OSError'))
    return VStr(z3.Const('env.hostname', Bytes))        # the machine's host name: one unknown constant (spec name HOSTNAME)


def bi_fstat(w, ex, args, kwargs, node):
    w.use('os')
    if ex.choose('fstat-raises'):
        raise RaiseSig(VExc('OSError'))
    size = z3.Int(ex.fresh_name('st_size'))
    ex.assume(size >= 0)
    return VObj('StatResult', {'st_size': VInt(size)})


def bi_open(w, ex, args, kwargs, node):
    """open(path, mode) / aiofiles.open(path, mode) as a context manager: may raise OSError; creates/opens one local file."""
    w.use('open')
    mode = args[1].concrete() if len(args) > 1 and isinstance(args[1], VStr) else 'r'

    def enter():
        if ex.choose('open-raises'):
            raise RaiseSig(VExc('OSError'))
        G = ex.G
        G.fields['files_opened'] = VInt(G.fields['files_opened'].term + 1)
        if 'w' not in mode:
            # a freshly opened source: its own content, read position 0
            G.fields['fin'] = VBytes(z3.Const(ex.fresh_name('G.fin'), Bytes), False)
            G.fields['fpos'] = VInt(0)
        return VOpaque('FileW' if 'w' in mode else 'FileR', z3.Int(ex.fresh_name('file')))
    return VCtx(enter, lambda exc: None)


LD_len = z3.Function('listdir_len', Bytes, IntS)
LD_at = z3.Function('listdir_at', Bytes, IntS, Bytes)
PATHJOIN = z3.Function('pathjoin', Bytes, Bytes, Bytes)
ISDIR = z3.Function('isdir', Bytes, BoolS)


def bi_isdir(w, ex, args, kwargs, node):
    w.use('os')
    p = args[0]
    if not isinstance(p, VStr):
        raise RaiseSig(VExc('TypeError'))
    return VBool(ISDIR(p.term))


def bi_listdir(w, ex, args, kwargs, node):
    w.use('os')
    p = args[0]
    if not isinstance(p, VStr):
        raise RaiseSig(VExc('TypeError'))
    if ex.choose('listdir-raises'):
        raise RaiseSig(VExc('OSError'))
    n = LD_len(p.term)
    ex.assume(n >= 0)
    return VSeq(n, lambda i, t=p.term: VStr(LD_at(t, i)), 'str-derived', None)


def bi_pathjoin(w, ex, args, kwargs, node):
    w.use('os')
    a, b = args
    return VStr(PATHJOIN(a.term, b.term))


def sp_listdir_at(w, ex, node):
    p, i = _spec_args(ex, node)
    if not isinstance(p, VStr):
        return VStr('')             # not a path (an in-memory stream): there is no listing
    return VStr(LD_at(p.term, to_int(i)))


def sp_listdir_len(w, ex, node):
    (p,) = _spec_args(ex, node)
    if not isinstance(p, VStr):
        return VInt(0)
    return VInt(LD_len(p.term))


def sp_pathjoin(w, ex, node):
    a, b = _spec_args(ex, node)
    if not isinstance(a, VStr) or not isinstance(b, VStr):
        return VStr('')
    return VStr(PATHJOIN(a.term, b.term))


def sp_isdir(w, ex, node):
    (p,) = _spec_args(ex, node)
    if not isinstance(p, VStr):
        return VBool(False)
    return VBool(ISDIR(p.term))


def bi_async_timeout(w, ex, args, kwargs, node):
    """async_timeout.timeout(t): the body is cancelled (asyncio.TimeoutError at its current await) once t seconds have passed,
    so on every exit of the block at most max(t, 0) seconds have elapsed (A-TIMEOUTCTX); t None = no limit."""
    w.use('async_timeout')
    t = args[0] if args else NONE
    state = {}

    def enter():
        G = ex.G
        state['now0'] = G.fields['now'].term
        state['saved'] = (G.fields['tctx'], G.fields['tctx_on'])
        G.fields['tctx'] = t if isinstance(t, (VOpt, VNone)) else (VReal(to_real(t)) if not isinstance(t, VReal) else t)
        G.fields['tctx_on'] = VBool(True)
        return NONE

    def exit_(exc):
        G = ex.G
        G.fields['tctx'], G.fields['tctx_on'] = state['saved']
        n, v = as_opt(t)
        if v is not None:
            lim = z3.If(to_real(v) > 0, to_real(v), 0)
            ex.assume(z3.Or(n, G.fields['now'].term - state['now0'] <= lim))
    return VCtx(enter, exit_)


def bi_platform_system(w, ex, args, kwargs, node):
    w.use('os')
    return VStr(z3.Const('env.platform', Bytes))        # one unknown constant per run (spec name PLATFORM)


def bi_namedtuple(w, ex, args, kwargs, node):
    return VClass('lib:namedtuple')


def bi_noop(w, ex, args, kwargs, node):
    return NONE


BUILTINS = {
    'pow': bi_pow, 'len': bi_len, 'min': _minmax(True), 'max': _minmax(False), 'int': bi_int, 'bool': bi_bool, 'bytes': bi_bytes,
    'bytearray': bi_bytearray, 'isinstance': bi_isinstance, 'sum': bi_sum, 'hasattr': bi_hasattr, 'ord': bi_ord, 'str': bi_str,
    'struct.pack': bi_struct_pack, 'struct.unpack': bi_struct_unpack, 'struct.unpack_from': bi_struct_unpack_from, 'struct.calcsize': bi_struct_calcsize,
    'time.time': bi_time_time, 'contextmanager': bi_contextmanager, 'socket.gethostname': bi_gethostname, 'os.fstat': bi_fstat, 'namedtuple': bi_namedtuple, 'open': bi_open, 'async_timeout.timeout': bi_async_timeout, 'platform.system': bi_platform_system,
    'aiofiles.open': bi_open, 'os.path.isdir': bi_isdir, 'os.listdir': bi_listdir, 'os.path.join': bi_pathjoin,
}


# ---- methods on built-in kinds -------------------------------------------------------------------

def m_bytes_decode(w, ex, base, args, kwargs, node):
    w.use('bytes.decode')
    enc = args[0] if args else kwargs.get('encoding')
    errors = args[1] if len(args) > 1 else kwargs.get('errors')
    encc = enc.concrete() if isinstance(enc, VStr) else None
    if enc is not None and encc not in ('utf8', 'utf-8'):
        raise Unsupported('decode with encoding %r' % (encc,))
    errc = errors.concrete() if isinstance(errors, VStr) else ('strict' if errors is None else None)
    if errc == 'backslashreplace':
        return VStr(SF.dec_bsr(base.term))
    # any other handler: may raise on invalid input, and is a different function of the bytes
    tag = bytes_const((errc or '?').encode())
    if errc in ('strict', None):
        if ex.choose('decode-error'):
            raise RaiseSig(VExc('UnicodeDecodeError'))
    return VStr(SF.dec_other(base.term, tag))


def m_str_encode(w, ex, base, args, kwargs, node):
    w.use('str.encode')
    if args:
        enc = args[0].concrete() if isinstance(args[0], VStr) else None
        if enc not in ('utf8', 'utf-8'):
            raise Unsupported('encode(%r)' % (enc,))
    return VBytes(base.term, False)


def m_str_format(w, ex, base, args, kwargs, node):
    w.use('str.format')
    c = base.concrete()
    if c is not None and kwargs and not args and all(isinstance(v, (VInt, VStr)) and v.concrete() is not None for v in kwargs.values()):
        try:
            return VStr(c.format(**{k: v.concrete() for k, v in kwargs.items()}))
        except (KeyError, IndexError, ValueError):
            raise Unsupported('format template %r' % c)
    if c is None or kwargs:
        raise Unsupported('format on symbolic template')
    parts = c.split('{}')
    if '{' in ''.join(parts) or len(parts) - 1 != len(args):
        return VStr(z3.Const(ex.fresh_name('fmt'), Bytes))       # opaque text (A-MSG)
    out = []
    for k, p in enumerate(parts):
        if p:
            out.append(bytes_const(p.encode('utf8')))
        if k < len(args):
            a = args[k]
            if isinstance(a, VStr):
                out.append(a.term)
            elif isinstance(a, VInt):
                out.append(SF.decimal(a.term))
            else:
                return VStr(z3.Const(ex.fresh_name('fmt'), Bytes))
    return VStr(z3.Concat(*out) if len(out) > 1 else (out[0] if out else EMPTY))


LEB = z3.Function('le_bytes', IntS, IntS, Bytes)
BEB = z3.Function('be_bytes', IntS, IntS, Bytes)
STRFN = {}


def m_int_to_bytes(w, ex, base, args, kwargs, node):
    """int.to_bytes(length, 'little'): OverflowError unless 0 <= n < 256**length; else the `length` little-endian digits."""
    w.use('int.to_bytes')
    length = args[0]
    order = args[1].concrete() if len(args) > 1 and isinstance(args[1], VStr) else None
    lc = length.concrete() if isinstance(length, VInt) else None
    if order not in ('little', 'big') or lc is None or lc <= 0:
        raise Unsupported('int.to_bytes(%r, %r)' % (lc, order))
    ok = z3.And(base.term >= 0, base.term < 256 ** lc)
    if ex.mode != 'spec' and not ex.branch(ok):
        raise RaiseSig(VExc('OverflowError'))
    t = (LEB if order == 'little' else BEB)(base.term, z3.IntVal(lc))
    ex.assume(z3.Length(t) == lc)
    return VBytes(t, False)


def sp_le_bytes(w, ex, node):
    n, k = _spec_args(ex, node)
    return VBytes(LEB(to_int(n), to_int(k)), False)


def m_seq_append(w, ex, base, args, kwargs, node):
    w.use('list.append')
    raise Unsupported('append on a symbolic list must go through the list hook')


def _opaque_str_method(name, to_bool=False):
    """A pure str method without a precise axiom: an uninterpreted function of the receiver (and of concrete arguments)."""
    def m(w, ex, base, args, kwargs, node):
        w.use('str.%s' % name)
        key = name + '(' + ','.join(repr(a.concrete()) if isinstance(a, (VStr, VInt, VBytes)) and a.concrete() is not None else '?' for a in args) + ')'
        if '?' in key or kwargs:
            raise Unsupported('str.%s with symbolic arguments' % name)
        if key not in STRFN:
            STRFN[key] = z3.Function('str.' + key, Bytes, BoolS if to_bool else Bytes)
        r = STRFN[key](base.term)
        return VBool(r) if to_bool else type(base)(r) if isinstance(base, VStr) else VBytes(r, False)
    return m


def m_constdict_get(w, ex, base, args, kwargs, node):
    w.use('dict')
    default = args[1] if len(args) > 1 else NONE
    return base.lookup(ex, args[0], strict=False, default=default)


def m_lock_acquire(w, ex, base, args, kwargs, node):
    """Lock.acquire(blocking=True, timeout=-1) / await asyncio.Lock.acquire(): with the defaults it returns True once the lock is held;
    non-blocking or with a timeout it may also return False without the lock (threading).  Same obligations as entering `with lock`."""
    w.use('Lock.acquire')
    may_fail = False
    if args or kwargs:
        blocking = args[0] if args else kwargs.get('blocking')
        timeout = args[1] if len(args) > 1 else kwargs.get('timeout')
        if blocking is not None:
            c = blocking.concrete() if hasattr(blocking, 'concrete') else None
            may_fail = may_fail or c is not True
        if timeout is not None:
            may_fail = True
    if may_fail and ex.choose('lock.acquire.fails'):
        return VBool(False)
    w.lock_acquire(ex, base)
    return VBool(True)


def m_lock_release(w, ex, base, args, kwargs, node):
    w.use('Lock.release')
    fld = 'held_' + base.name
    if not ex.branch(ex.G.fields[fld].term):
        raise RaiseSig(VExc('RuntimeError'))          # release of an unlocked lock
    w.lock_release(ex, base)
    return NONE


def m_lock_locked(w, ex, base, args, kwargs, node):
    # whether ANY thread of control holds it: unknown unless this one does
    held = ex.G.fields['held_' + base.name].term
    other = z3.Bool(ex.fresh_name('locked_by_other'))
    return VBool(z3.Or(held, other))


METHODS = {
    ('VLock', 'acquire'): m_lock_acquire,
    ('VLock', 'release'): m_lock_release,
    ('VLock', 'locked'): m_lock_locked,
    ('VBytes', 'decode'): m_bytes_decode,
    ('VStr', 'encode'): m_str_encode,
    ('VStr', 'format'): m_str_format,
    ('VInt', 'to_bytes'): m_int_to_bytes,
    ('VStr', 'strip'): _opaque_str_method('strip'),
    ('VStr', 'lstrip'): _opaque_str_method('lstrip'),
    ('VStr', 'rstrip'): _opaque_str_method('rstrip'),
    ('VStr', 'lower'): _opaque_str_method('lower'),
    ('VStr', 'upper'): _opaque_str_method('upper'),
    ('VStr', 'replace'): _opaque_str_method('replace'),
    ('VStr', 'startswith'): _opaque_str_method('startswith', True),
    ('VStr', 'endswith'): _opaque_str_method('endswith', True),
    ('VStr', 'title'): _opaque_str_method('title'),
    ('VBytes', 'strip'): _opaque_str_method('strip'),
    ('VBytes', 'lstrip'): _opaque_str_method('lstrip'),
    ('VBytes', 'rstrip'): _opaque_str_method('rstrip'),
    ('VBytes', 'lower'): _opaque_str_method('lower'),
    ('VBytes', 'upper'): _opaque_str_method('upper'),
    ('VBytes', 'replace'): _opaque_str_method('replace'),
    ('VBytes', 'startswith'): _opaque_str_method('startswith', True),
    ('VBytes', 'endswith'): _opaque_str_method('endswith', True),
    ('VBytes', 'title'): _opaque_str_method('title'),

    ('VConstDict', 'get'): m_constdict_get,
}


# =================================================================================================
# spec functions (available in contract expressions only)

def _spec_args(ex, node):
    return [ex.eval(a) for a in node.args]


def sp_old(w, ex, node):
    with ex._Old(ex, ex.old_snap, dict(ex.env, **{k: v for k, v in ex.old_env.items()})):
        v = ex.eval(node.args[0])
        if isinstance(v, VObj):
            v = VObj(v.cls, dict(v.fields), name=v.name + '@old')      # a frozen copy of the object's old state
        return v


def sp_implies(w, ex, node):
    a = truth(ex.eval(node.args[0]))
    if z3.is_false(z3.simplify(a)):
        return VBool(True)          # the consequent may not even be well-typed here (e.g. val(None)[0])
    b = ex.eval(node.args[1])
    return VBool(z3.Implies(a, truth(b)))


def sp_iff(w, ex, node):
    a, b = _spec_args(ex, node)
    return VBool(truth(a) == truth(b))


def sp_ite(w, ex, node):
    c = z3.simplify(truth(ex.eval(node.args[0])))
    if z3.is_true(c):
        return ex.eval(node.args[1])
    if z3.is_false(c):
        return ex.eval(node.args[2])
    return merge(c, ex.eval(node.args[1]), ex.eval(node.args[2]))


def sp_le32(w, ex, node):
    (x,) = _spec_args(ex, node)
    return VBytes(SF.le32(to_int(x)), False)


def sp_unle32(w, ex, node):
    (b,) = _spec_args(ex, node)
    return VInt(SF.unle32(b.term))


def sp_bsum(w, ex, node):
    (b,) = _spec_args(ex, node)
    return VInt(SF.bsum(b.term))


def sp_word(w, ex, node):
    """word(b, i) = the i-th little-endian 32-bit word of b"""
    b, i = _spec_args(ex, node)
    return VInt(SF.unle32(ex.slice_term(b.term, 4 * to_int(i), 4 * to_int(i) + 4)))


def sp_hdr(w, ex, node):
    vals = _spec_args(ex, node)
    return VBytes(z3.Concat(*[SF.le32(to_int(v)) for v in vals]), False)


def sp_cat(w, ex, node):
    vals = _spec_args(ex, node)
    terms = [v.term for v in vals]
    return VBytes(z3.Concat(*terms) if len(terms) > 1 else terms[0], False)


def sp_utf8(w, ex, node):
    (s,) = _spec_args(ex, node)
    if isinstance(s, VBytes):
        return VBytes(s.term, False)
    return VBytes(s.term, False)


def sp_asstr(w, ex, node):
    (s,) = _spec_args(ex, node)
    return VStr(s.term)


def sp_dec_bsr(w, ex, node):
    (b,) = _spec_args(ex, node)
    return VStr(SF.dec_bsr(b.term))


def sp_decimal(w, ex, node):
    (x,) = _spec_args(ex, node)
    return VBytes(SF.decimal(to_int(x)), False)


def sp_isbytes(w, ex, node):
    (x,) = _spec_args(ex, node)
    return VBool(isinstance(x, VBytes) and not x.ba)


def sp_isbytearray(w, ex, node):
    (x,) = _spec_args(ex, node)
    return VBool(isinstance(x, VBytes) and x.ba)


def sp_isstr(w, ex, node):
    (x,) = _spec_args(ex, node)
    return VBool(isinstance(x, VStr))


def sp_store(w, ex, node):
    m, k, v = _spec_args(ex, node)
    if isinstance(v, (VInt, VBool)) and m.arr.sort().range() == IntS:
        return VMap(z3.Store(m.arr, to_int(k), to_int(v)))
    if isinstance(v, VBool):
        return VMap(z3.Store(m.arr, to_int(k), v.term))
    return VMap(z3.Store(m.arr, to_int(k), v.term))


def sp_D(fn, wrap):
    def f(w, ex, node):
        a, b = _spec_args(ex, node)
        return wrap(fn(to_int(a), to_int(b)))
    return f


def sp_catD(w, ex, node):
    a, b, c = _spec_args(ex, node)
    return VBytes(SF.catD(to_int(a), to_int(b), to_int(c)), False)


def sp_frame(w, ex, node):
    """frame(cmd, arg0, arg1, data): the wire image of one ADB message (24-byte header then payload)."""
    cmd, a0, a1, data = _spec_args(ex, node)
    c = SF.unle32(cmd.term)
    n0, v0 = as_opt(a0)
    n1, v1 = as_opt(a1)
    h = z3.Concat(SF.le32(c), SF.le32(to_int(v0)), SF.le32(to_int(v1)), SF.le32(z3.Length(data.term)),
                  SF.le32(SF.bsum(data.term) % TWO32), SF.le32(TWO32 - 1 - c))
    return VBytes(z3.Concat(h, data.term), False)


def sp_rep(w, ex, node):
    b, n = _spec_args(ex, node)
    return VBytes(SF.rep(b.term, to_int(n)), False)


def sp_nextid(w, ex, node):
    (x,) = _spec_args(ex, node)
    t = to_int(x)
    return VInt(z3.If(t + 1 == TWO32, 1, t + 1))


def sp_FS_w(w, ex, node):
    a, b, c = _spec_args(ex, node)
    return VInt(SF.FS_w(to_int(a), to_int(b), to_int(c)))


def sp_catFS(w, ex, node):
    a, b, c = _spec_args(ex, node)
    return VBytes(SF.catFS(to_int(a), to_int(b), to_int(c)), False)


def sp_asbytearray(w, ex, node):
    (b,) = _spec_args(ex, node)
    return VBytes(b.term, True)


def sp_SB(w, ex, node):
    l, a, b = _spec_args(ex, node)
    return VBytes(SF.SB(to_int(l), z3.simplify(to_int(a)), z3.simplify(to_int(b))), False)


def sp_cmdset(w, ex, node):
    vals = _spec_args(ex, node)
    return w.coerce(ex, VList(vals), 'cmdset')


def sp_isnone(w, ex, node):
    (x,) = _spec_args(ex, node)
    n, _ = as_opt(x)
    return VBool(n)


def sp_val(w, ex, node):
    (x,) = _spec_args(ex, node)
    n, inner = as_opt(x)
    return inner


def sp_real(w, ex, node):
    (x,) = _spec_args(ex, node)
    return VReal(to_real(x))


def sp_zeros(w, ex, node):
    (x,) = _spec_args(ex, node)
    return VBytes(SF.zeros(to_int(x)), True)


def sp_same(w, ex, node):
    a, b = _spec_args(ex, node)
    if getattr(ex, 'in_define', False) and isinstance(a, VNone) != isinstance(b, VNone) and not isinstance(a, VOpt) and not isinstance(b, VOpt):
        raise Unsupported('definitional binding between None and a value (the clause would exclude this exit)')
    return VBool(veq(a, b))


def sp_forall_int(w, ex, node):
    """forall_int('k', body_expr_string)  -- a universally quantified integer in a contract"""
    name = node.args[0].value
    body = node.args[1]
    k = z3.Int('__q_' + name)
    saved = ex.env
    ex.env = dict(saved)
    ex.env[name] = VInt(k)
    try:
        if isinstance(body, ast.Constant) and isinstance(body.value, str):
            body = ast.parse(body.value, mode='eval').body
        f = truth(ex.eval(body))
    finally:
        ex.env = saved
    return VBool(z3.ForAll([k], f))


SPEC_FUNCS = {
    'old': sp_old, 'implies': sp_implies, 'iff': sp_iff, 'ite': sp_ite, 'le32': sp_le32, 'unle32': sp_unle32, 'bsum': sp_bsum,
    'word': sp_word, 'hdr': sp_hdr, 'cat': sp_cat, 'utf8': sp_utf8, 'asstr': sp_asstr, 'dec_bsr': sp_dec_bsr, 'decimal': sp_decimal,
    'isbytes': sp_isbytes, 'isbytearray': sp_isbytearray, 'isstr': sp_isstr, 'store': sp_store, 'isnone': sp_isnone, 'val': sp_val,
    'real': sp_real, 'zeros': sp_zeros, 'frame': sp_frame, 'rep': sp_rep, 'nextid': sp_nextid, 'same': sp_same, 'forall_int': sp_forall_int, 'cmdset': sp_cmdset,
    'D_cmd': sp_D(SF.D_cmd, lambda t: VBytes(t, False)), 'D_a0': sp_D(SF.D_a0, VInt), 'D_a1': sp_D(SF.D_a1, VInt),
    'D_data': sp_D(SF.D_data, lambda t: VBytes(t, False)), 'catD': sp_catD,
    'FS_id': sp_D(SF.FS_id, lambda t: VBytes(t, False)), 'FS_data': sp_D(SF.FS_data, lambda t: VBytes(t, True)), 'FS_w': sp_FS_w, 'catFS': sp_catFS,
    'asbytearray': sp_asbytearray, 'SB': sp_SB, 'le_bytes': sp_le_bytes, 'listdir_at': sp_listdir_at, 'listdir_len': sp_listdir_len, 'pathjoin': sp_pathjoin,
    'isdir': sp_isdir,
}

SPEC_CONSTS = {
    'TWO32': lambda w: VInt(TWO32),
    'EMPTY': lambda w: VBytes(b'', False),
    'SLASH': lambda w: VStr('/'),
    'HOSTNAME': lambda w: VStr(z3.Const('env.hostname', Bytes)),
    'LOGIN': lambda w: VStr(z3.Const('env.login', Bytes)),
    'PLATFORM': lambda w: VStr(z3.Const('env.platform', Bytes)),
}
