"""Reads the real sources from /repo's working tree on every run (nothing is cached between runs)."""
import ast
import hashlib
import os
import subprocess

REPO = os.environ.get('PYVC_REPO', '/repo')
PKG = 'adb_shell'


class AsyncNormalizer(ast.NodeTransformer):
    """A-AWAIT: `await e` is `e`; `async with/for/def` are `with/for/def`; async comprehensions are comprehensions.
    This is the only rewriting applied to the source before symbolic execution."""

    def __init__(self):
        self.dropped = {'await': 0, 'async def': 0, 'async with': 0, 'async for': 0, 'async comprehension': 0}

    def visit_Await(self, node):
        self.dropped['await'] += 1
        return self.visit(node.value)

    def visit_AsyncFunctionDef(self, node):
        self.dropped['async def'] += 1
        new = ast.FunctionDef(name=node.name, args=node.args, body=node.body, decorator_list=node.decorator_list,
                              returns=node.returns, type_comment=None)
        new._was_async = True
        ast.copy_location(new, node)
        self.generic_visit(new)
        return new

    def visit_AsyncWith(self, node):
        self.dropped['async with'] += 1
        new = ast.With(items=node.items, body=node.body, type_comment=None)
        ast.copy_location(new, node)
        self.generic_visit(new)
        return new

    def visit_AsyncFor(self, node):
        self.dropped['async for'] += 1
        new = ast.For(target=node.target, iter=node.iter, body=node.body, orelse=node.orelse, type_comment=None)
        ast.copy_location(new, node)
        self.generic_visit(new)
        return new

    def visit_comprehension(self, node):
        if node.is_async:
            self.dropped['async comprehension'] += 1
            node.is_async = 0
        self.generic_visit(node)
        return node


class Module(object):
    def __init__(self, name, path, text):
        self.name = name
        self.path = path
        self.text = text
        self.sha256 = hashlib.sha256(text.encode('utf8')).hexdigest()
        tree = ast.parse(text, filename=path)
        self.norm = AsyncNormalizer()
        self.tree = self.norm.visit(tree)
        ast.fix_missing_locations(self.tree)
        self.funcs = {}
        self.classes = {}
        self.imports = {}     # local name -> ('module', dotted) | ('from', dotted module, attr)
        self.assigns = {}     # module level simple assignments: name -> ast expr
        self._index()

    def _index(self):
        def walk_body(body):
            for st in body:
                if isinstance(st, ast.FunctionDef):
                    self.funcs[st.name] = st
                elif isinstance(st, ast.ClassDef):
                    self.classes[st.name] = st
                    for sub in st.body:
                        if isinstance(sub, ast.FunctionDef):
                            self.funcs[st.name + '.' + sub.name] = sub
                elif isinstance(st, ast.Import):
                    for a in st.names:
                        self.imports[a.asname or a.name.split('.')[0]] = ('module', a.name if a.asname else a.name.split('.')[0])
                elif isinstance(st, ast.ImportFrom):
                    base = self._resolve_from(st)
                    for a in st.names:
                        self.imports[a.asname or a.name] = ('from', base, a.name)
                elif isinstance(st, ast.Assign) and len(st.targets) == 1 and isinstance(st.targets[0], ast.Name):
                    self.assigns[st.targets[0].id] = st.value
                elif isinstance(st, ast.Try):
                    walk_body(st.body)
                elif isinstance(st, ast.If):
                    pass
        walk_body(self.tree.body)

    def _resolve_from(self, st):
        if st.level == 0:
            return st.module
        parts = self.name.split('.')
        base = parts[:len(parts) - st.level]
        if st.module:
            base.append(st.module)
        return '.'.join(base)


class Sources(object):
    def __init__(self, repo=None):
        self.repo = repo or REPO
        self.modules = {}

    def module(self, short):
        """short: 'adb_device', 'transport.tcp_transport', 'auth.keygen' ..."""
        if short not in self.modules:
            path = os.path.join(self.repo, PKG, *short.split('.')) + '.py'
            with open(path, encoding='utf8') as f:
                text = f.read()
            self.modules[short] = Module(PKG + '.' + short, path, text)
        return self.modules[short]

    def function(self, ref):
        """ref: 'adb_device:_AdbIOManager._send'"""
        mod, qual = ref.split(':')
        m = self.module(mod)
        if qual not in m.funcs:
            raise KeyError('function %s not found in %s' % (qual, m.path))
        return m, m.funcs[qual]

    def hashes(self):
        return {m.path: m.sha256 for m in self.modules.values()}

    def dropped(self):
        out = {}
        for m in self.modules.values():
            for k, v in m.norm.dropped.items():
                if v:
                    out.setdefault(m.path, {})[k] = v
        return out

    def git_state(self):
        try:
            head = subprocess.run(['git', '-C', self.repo, 'rev-parse', 'HEAD'], capture_output=True, text=True).stdout.strip()
            dirty = bool(subprocess.run(['git', '-C', self.repo, 'status', '--porcelain', '--', PKG], capture_output=True, text=True).stdout.strip())
            return head, dirty
        except Exception:      # noqa
            return 'unknown', True


def func_source_hash(fn_node):
    return hashlib.sha256(ast.dump(fn_node).encode('utf8')).hexdigest()[:16]
