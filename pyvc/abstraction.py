"""Arithmetic abstraction of path conditions for the *in-generation* solver calls (path feasibility, choice between two
equivalent encodings).  z3's sequence solver does not reliably honour timeouts or resource limits, so those calls never see
sequence terms: every non-arithmetic atom becomes a fresh Boolean, every non-arithmetic integer/real term (len(x), unle32(..),
select(..)) a fresh numeric constant.  The abstraction is weaker than the formula, so
    abstract(pc) unsat  ==>  pc unsat
Both uses are sound: a missed pruning only adds paths whose obligations are trivially true; a missed entailment only keeps
the general (clamped) encoding of a slice.  Obligations themselves are always discharged on the exact formulas.
"""
import z3

_K = None


def _kinds():
    global _K
    if _K is None:
        _K = {
            'add': z3.Z3_OP_ADD, 'sub': z3.Z3_OP_SUB, 'mul': z3.Z3_OP_MUL, 'uminus': z3.Z3_OP_UMINUS, 'idiv': z3.Z3_OP_IDIV,
            'div': z3.Z3_OP_DIV, 'mod': z3.Z3_OP_MOD, 'to_real': z3.Z3_OP_TO_REAL, 'to_int': z3.Z3_OP_TO_INT, 'ite': z3.Z3_OP_ITE,
            'le': z3.Z3_OP_LE, 'lt': z3.Z3_OP_LT, 'ge': z3.Z3_OP_GE, 'gt': z3.Z3_OP_GT, 'eq': z3.Z3_OP_EQ, 'distinct': z3.Z3_OP_DISTINCT,
            'and': z3.Z3_OP_AND, 'or': z3.Z3_OP_OR, 'not': z3.Z3_OP_NOT, 'implies': z3.Z3_OP_IMPLIES,
            'true': z3.Z3_OP_TRUE, 'false': z3.Z3_OP_FALSE, 'seqlen': z3.Z3_OP_SEQ_LENGTH,
        }
    return _K


class Abstractor(object):
    def __init__(self):
        self.memo = {}          # ast id -> (original kept alive, abstraction)
        self.side = []          # side facts (len >= 0)
        self.n = 0

    def fresh(self, sort):
        self.n += 1
        if sort == 'bool':
            return z3.Bool('abs!b%d' % self.n)
        if sort == 'int':
            return z3.Int('abs!i%d' % self.n)
        return z3.Real('abs!r%d' % self.n)

    def num(self, t):
        key = t.get_id()
        hit = self.memo.get(key)
        if hit is not None:
            return hit[1]
        K = _kinds()
        r = None
        is_int = t.sort().kind() == z3.Z3_INT_SORT
        if z3.is_int_value(t) or z3.is_rational_value(t):
            r = t
        elif z3.is_app(t):
            k = t.decl().kind()
            ch = t.children()
            if k == K['add']:
                r = z3.Sum([self.num(c) for c in ch])
            elif k == K['sub']:
                r = self.num(ch[0])
                for c in ch[1:]:
                    r = r - self.num(c)
            elif k == K['uminus']:
                r = -self.num(ch[0])
            elif k == K['mul']:
                consts = [c for c in ch if z3.is_int_value(c) or z3.is_rational_value(c)]
                if len(consts) >= len(ch) - 1:
                    r = self.num(ch[0])
                    for c in ch[1:]:
                        r = r * self.num(c)
            elif k in (K['idiv'], K['mod']) and z3.is_int_value(ch[1]) and ch[1].as_long() > 0:
                a = self.num(ch[0])
                r = (a / ch[1]) if k == K['idiv'] else (a % ch[1])
            elif k == K['to_real']:
                r = z3.ToReal(self.num(ch[0]))
            elif k == K['to_int']:
                r = z3.ToInt(self.num(ch[0]))
            elif k == K['ite']:
                r = z3.If(self.boolean(ch[0]), self.num(ch[1]), self.num(ch[2]))
            elif k == z3.Z3_OP_UNINTERPRETED and t.num_args() == 0:
                r = t
        if r is None and z3.is_app(t) and t.decl().kind() == K['seqlen']:
            r = self.seqlen(t.arg(0))
        if r is None:
            r = self.fresh('int' if is_int else 'real')
        self.memo[key] = (t, r)
        return r

    def seqlen(self, s):
        """len of a sequence term: structural for concat / unit / empty / extract, a fresh non-negative int otherwise."""
        key = ('len', s.get_id())
        hit = self.memo.get(key)
        if hit is not None:
            return hit[1]
        r = None
        if z3.is_app(s):
            k = s.decl().kind()
            if k == z3.Z3_OP_SEQ_CONCAT:
                r = z3.Sum([self.seqlen(c) for c in s.children()])
            elif k == z3.Z3_OP_SEQ_UNIT:
                r = z3.IntVal(1)
            elif k == z3.Z3_OP_SEQ_EMPTY:
                r = z3.IntVal(0)
            elif k == z3.Z3_OP_SEQ_EXTRACT:
                base, off, n = s.arg(0), self.num(s.arg(1)), self.num(s.arg(2))
                lb = self.seqlen(base)
                r = self.fresh('int')
                self.side.append(r >= 0)
                self.side.append(r <= z3.If(n > 0, n, 0))
                self.side.append(r <= lb)
                self.side.append(z3.Implies(z3.And(off >= 0, n >= 0, off + n <= lb), r == n))
            elif k == z3.Z3_OP_ITE:
                r = z3.If(self.boolean(s.arg(0)), self.seqlen(s.arg(1)), self.seqlen(s.arg(2)))
            elif k == z3.Z3_OP_UNINTERPRETED and s.decl().name() == 'le32':
                r = z3.IntVal(4)
            elif k == z3.Z3_OP_UNINTERPRETED and s.decl().name() == 'SB':
                a, b = self.num(s.arg(1)), self.num(s.arg(2))
                r = z3.If(b >= a, b - a, 0)
        if r is None:
            r = self.fresh('int')
            self.side.append(r >= 0)
        self.memo[key] = (s, r)
        return r

    def boolean(self, t):
        key = t.get_id()
        hit = self.memo.get(key)
        if hit is not None:
            return hit[1]
        K = _kinds()
        r = None
        if z3.is_app(t):
            k = t.decl().kind()
            ch = t.children()
            if k == K['true'] or k == K['false']:
                r = t
            elif k == K['and']:
                r = z3.And([self.boolean(c) for c in ch])
            elif k == K['or']:
                r = z3.Or([self.boolean(c) for c in ch])
            elif k == K['not']:
                r = z3.Not(self.boolean(ch[0]))
            elif k == K['implies']:
                r = z3.Implies(self.boolean(ch[0]), self.boolean(ch[1]))
            elif k == K['ite'] and t.sort().kind() == z3.Z3_BOOL_SORT:
                r = z3.If(self.boolean(ch[0]), self.boolean(ch[1]), self.boolean(ch[2]))
            elif k in (K['le'], K['lt'], K['ge'], K['gt']):
                a, b = self.num(ch[0]), self.num(ch[1])
                r = {K['le']: a <= b, K['lt']: a < b, K['ge']: a >= b, K['gt']: a > b}[k]
            elif k == K['eq'] or k == K['distinct']:
                sk = ch[0].sort().kind()
                if sk in (z3.Z3_INT_SORT, z3.Z3_REAL_SORT) and len(ch) == 2:
                    a, b = self.num(ch[0]), self.num(ch[1])
                    r = (a == b) if k == K['eq'] else (a != b)
                elif sk == z3.Z3_BOOL_SORT and len(ch) == 2:
                    a, b = self.boolean(ch[0]), self.boolean(ch[1])
                    r = (a == b) if k == K['eq'] else (a != b)
            elif k == z3.Z3_OP_UNINTERPRETED and t.num_args() == 0:
                r = t
        if r is None:
            r = self.fresh('bool')
        self.memo[key] = (t, r)
        return r


def unsat_abstract(formulas, timeout_ms=300):
    """True only if the arithmetic abstraction of the conjunction is unsatisfiable (hence the conjunction is)."""
    ab = Abstractor()
    fs = [ab.boolean(f) for f in formulas]
    s = z3.Solver()
    s.set('timeout', timeout_ms)
    for f in fs + ab.side:
        s.add(f)
    return s.check() == z3.unsat
