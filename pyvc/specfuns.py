"""Spec functions shared by all contracts (DESIGN.md section 3.2): z3 declarations, the ground axiom
instances attached to every query that mentions them, and native Python definitions used on replay.

Uninterpreted functions get *ground* instances of their defining axioms for every application that
occurs in a query (no quantifiers reach the solver from here), so verdicts do not depend on E-matching.
"""
import z3
from .values import Bytes, B8, IntS, BoolS, EMPTY

le32 = z3.Function('le32', IntS, Bytes)           # 4-byte little-endian code of a word
unle32 = z3.Function('unle32', Bytes, IntS)       # its inverse on 4-byte strings
bsum = z3.Function('bsum', Bytes, IntS)           # sum of the byte values (builtin sum() over bytes)
zeros = z3.Function('zeros', IntS, Bytes)         # bytearray(n)
dec_bsr = z3.Function('dec_bsr', Bytes, Bytes)    # bytes.decode('utf8', 'backslashreplace'), as the UTF-8 of the str
dec_other = z3.Function('dec_other', Bytes, Bytes, Bytes)  # decode with any other error handler (arg 2 = handler name)
decimal = z3.Function('decimal', IntS, Bytes)     # str(int) as ASCII
strof = z3.Function('strof', Bytes, Bytes)        # str(bytes-like) / '%s' % x for opaque text (messages)

# per-stream delivered log (history variable defined by IOManager.read, see contracts/adb_device.py)
D_cmd = z3.Function('D_cmd', IntS, IntS, Bytes)
D_a0 = z3.Function('D_a0', IntS, IntS, IntS)
D_a1 = z3.Function('D_a1', IntS, IntS, IntS)
D_data = z3.Function('D_data', IntS, IntS, Bytes)
# concatenation of D_data(lid, j) for j in [s, s+m)  -- by definition what b''.join yields over that slice
catD = z3.Function('catD', IntS, IntS, IntS, Bytes)

TWO32 = 2 ** 32


def _inst_le32(app):
    x = app.arg(0)
    out = [z3.Length(app) == 4,
           z3.Implies(z3.And(x >= 0, x < TWO32), unle32(app) == x)]
    xs = z3.simplify(x)
    if z3.is_int_value(xs) and 0 <= xs.as_long() < TWO32:
        from .values import bytes_const
        out.append(app == bytes_const(xs.as_long().to_bytes(4, 'little')))      # definition on literals
    return out


def _inst_unle32(app):
    b = app.arg(0)
    out = [app >= 0, app < TWO32,
           z3.Implies(z3.Length(b) == 4, le32(app) == b)]
    from .values import seq_concrete
    c = seq_concrete(b)
    if c is not None and len(c) == 4:
        out.append(app == int.from_bytes(c, 'little'))                           # definition on literals
    return out


def _inst_bsum(app):
    b = app.arg(0)
    return [app >= 0, app <= 255 * z3.Length(b), z3.Implies(z3.Length(b) == 0, app == 0)]


def _inst_zeros(app):
    n = app.arg(0)
    return [z3.Length(app) == z3.If(n >= 0, n, 0)]


def _inst_decimal(app):
    n = app.arg(0)
    return [z3.Length(app) >= 1, z3.Implies(z3.And(n >= 0, n < TWO32), z3.Length(app) <= 10)]


def _inst_catD(app):
    lid, s, m = app.arg(0), app.arg(1), app.arg(2)
    return [z3.Implies(m <= 0, app == EMPTY),
            z3.Implies(m == 1, app == D_data(lid, s)),
            z3.Implies(m >= 1, app == z3.Concat(catD(lid, s, m - 1), D_data(lid, s + m - 1)))]


# per-stream FileSync record log (history variable defined by AdbDevice._filesync_read)
FS_id = z3.Function('FS_id', IntS, IntS, Bytes)
FS_w = z3.Function('FS_w', IntS, IntS, IntS, IntS)       # (lid, record, word index) -> header word
FS_data = z3.Function('FS_data', IntS, IntS, Bytes)
catFS = z3.Function('catFS', IntS, IntS, IntS, Bytes)    # concatenation of FS_data(lid, j) for j in [s, s+m)


def _inst_catFS(app):
    lid, s, m = app.arg(0), app.arg(1), app.arg(2)
    return [z3.Implies(m <= 0, app == EMPTY),
            z3.Implies(m >= 1, app == z3.Concat(catFS(lid, s, m - 1), FS_data(lid, s + m - 1)))]


# per-stream sync byte stream (history variable defined by AdbDevice._read_until as WRTE payloads arrive):
# SB(lid, a, b) = the bytes at positions [a, b) of the concatenation of all WRTE payloads delivered on stream lid
SB = z3.Function('SB', IntS, IntS, IntS, Bytes)


def _inst_SB(app):
    a, b = app.arg(1), app.arg(2)
    return [z3.Length(app) == z3.If(b >= a, b - a, 0)]


# floor division / modulo by a *symbolic* positive divisor, kept uninterpreted (only their ranges are used)
PYMOD = z3.Function('pymod', IntS, IntS, IntS)
PYDIV = z3.Function('pydiv', IntS, IntS, IntS)


def _inst_pymod(app):
    x, y = app.arg(0), app.arg(1)
    return [z3.Implies(y > 0, z3.And(app >= 0, app < y))]


rep = z3.Function('rep', Bytes, IntS, Bytes)      # b repeated n times


def _inst_rep(app):
    b, n = app.arg(0), app.arg(1)
    return [z3.Implies(n <= 0, app == EMPTY),
            z3.Implies(n >= 1, app == z3.Concat(rep(b, n - 1), b))]


INSTANCES = {'le32': _inst_le32, 'unle32': _inst_unle32, 'bsum': _inst_bsum, 'zeros': _inst_zeros,
             'decimal': _inst_decimal, 'catD': _inst_catD, 'rep': _inst_rep, 'catFS': _inst_catFS, 'SB': _inst_SB, 'pymod': _inst_pymod}
# catD's unfolding is added only on request (it creates new catD terms): see axioms_for(..., unfold=...)

EXTRA_INSTANCES = {}      # contracts may register more (name -> fn(app) -> [formulas])
USED_AXIOMS = set()


def _split_instances(apps):
    """Concatenation split for catD / catFS / rep: for two applications t1 = f(p, s, a), t2 = f(p, s', b) in a query,
         s' == s + a  /\ a >= 0 /\ b >= 0   ==>   f(p, s, a + b) == t1 ++ t2
    (lemma proved by induction from the unfolding axioms: lemmas spec/cat-split-base, spec/cat-split-step)."""
    out = []
    groups = {}
    for t in apps:
        n = t.decl().name()
        if n in ('catD', 'catFS', 'rep'):
            groups.setdefault(n, []).append(t)
    sbs = [t for t in apps if t.decl().name() == 'SB']
    for t1 in sbs[:10]:
        for t2 in sbs[:10]:
            if t1.get_id() != t2.get_id():
                l1, a, b = t1.arg(0), t1.arg(1), t1.arg(2)
                l2, b2, c = t2.arg(0), t2.arg(1), t2.arg(2)
                out.append(z3.Implies(z3.And(l1 == l2, b == b2, a <= b, b <= c), SB(l1, a, c) == z3.Concat(t1, t2)))
    for n, ts in groups.items():
        if len(ts) > 8:
            ts = ts[:8]
        for t1 in ts:
            for t2 in ts:
                if t1.get_id() == t2.get_id():
                    continue
                if n == 'rep':
                    b1, a = t1.arg(0), t1.arg(1)
                    b2, b = t2.arg(0), t2.arg(1)
                    out.append(z3.Implies(z3.And(b1 == b2, a >= 0, b >= 0), rep(b1, a + b) == z3.Concat(t1, t2)))
                else:
                    f = t1.decl()
                    l1, s1, a = t1.arg(0), t1.arg(1), t1.arg(2)
                    l2, s2, b = t2.arg(0), t2.arg(1), t2.arg(2)
                    out.append(z3.Implies(z3.And(l1 == l2, s2 == s1 + a, a >= 0, b >= 0), f(l1, s1, a + b) == z3.Concat(t1, t2)))
    return out


def _mulmod_instances(formulas):
    """Modular-arithmetic congruence, instantiated on the products that occur:  ((a mod m) * b) mod m == (a * b) mod m  for a numeral m > 0."""
    out = []
    seen = set()
    stack = list(formulas)
    visited = set()
    while stack:
        t = stack.pop()
        if t.get_id() in visited:
            continue
        visited.add(t.get_id())
        if z3.is_quantifier(t):
            stack.append(t.body())
            continue
        if not z3.is_app(t):
            continue
        if t.decl().kind() == z3.Z3_OP_MUL and t.num_args() == 2:
            for i in (0, 1):
                a, b = t.arg(i), t.arg(1 - i)
                if z3.is_app(a) and a.decl().kind() == z3.Z3_OP_MOD and z3.is_int_value(a.arg(1)) and a.arg(1).as_long() > 0 \
                        and not z3.is_int_value(b) and t.get_id() not in seen and not _has_bound_var(t):
                    seen.add(t.get_id())
                    m = a.arg(1)
                    out.append((t % m) == ((a.arg(0) * b) % m))
        stack.extend(t.children())
    if out:
        USED_AXIOMS.add('mul-mod-congruence')
    return out


def axioms_for(formulas, rounds=2):
    """Ground axiom instances for every application of a spec function in `formulas` (and in the instances
    generated in the first round)."""
    seen = set()
    out = []
    frontier = list(formulas)
    table = dict(INSTANCES)
    table.update(EXTRA_INSTANCES)
    for _ in range(rounds):
        apps = []
        stack = list(frontier)
        visited = set()
        while stack:
            t = stack.pop()
            tid = t.get_id()
            if tid in visited:
                continue
            visited.add(tid)
            if z3.is_quantifier(t):
                stack.append(t.body())
                continue
            if z3.is_app(t):
                name = t.decl().name()
                if name in table and t.decl().kind() == z3.Z3_OP_UNINTERPRETED and tid not in seen:
                    if not _has_bound_var(t):
                        seen.add(tid)
                        apps.append(t)
                stack.extend(t.children())
        new = []
        for a in apps:
            USED_AXIOMS.add(a.decl().name())
            new.extend(table[a.decl().name()](a))
        if _ == 0:
            new.extend(_mulmod_instances(frontier))
            sp = _split_instances(apps)
            if sp:
                USED_AXIOMS.add('cat-split')
            new.extend(sp)
        out.extend(new)
        frontier = new
        if not new:
            break
    return out


def _has_bound_var(t):
    stack = [t]
    seen = set()
    while stack:
        x = stack.pop()
        if x.get_id() in seen:
            continue
        seen.add(x.get_id())
        if z3.is_var(x):
            return True
        if z3.is_app(x):
            stack.extend(x.children())
    return False


# ---- native definitions (replay oracle) ---------------------------------------------------------

def py_le32(x):
    return int(x).to_bytes(4, 'little')


def py_unle32(b):
    return int.from_bytes(bytes(b), 'little')


def py_bsum(b):
    return sum(bytes(b))


def py_dec_bsr(b):
    return bytes(b).decode('utf8', 'backslashreplace')
