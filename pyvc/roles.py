"""Roles of local variables: robustness of the sidecar contracts against renamed locals.

Loop invariants, call-site and return-site clauses have to name locals of the function (`start`, `total`, `arg0_arg1`).  A pure rename in
/repo would make such a clause stale.  For every local a contract mentions, `contracts/local_roles.json` records its *role*: the text of the
right-hand side of its first binding in the function the contract was written against (`time.time()`, `len(data)`, tuple position,
`for`-target).  When a clause mentions a name that no longer exists, the unique local of the current function with the same role is
used in its place.  This is only name resolution for proof hints: every clause is still an obligation that must be discharged, so a wrong
guess can make a proof fail but never succeed wrongly.

python3-vt -m pyvc.roles --write     regenerate the file from the current tree (done when contracts are written, never by ./check)
"""
import ast
import json
import os

VERIF = os.path.dirname(os.path.dirname(os.path.abspath(__file__)))
ROLES_FILE = os.path.join(VERIF, 'contracts', 'local_roles.json')


def function_roles(fn):
    """local name -> role text of its first binding (document order)."""
    params = {a.arg for a in fn.args.args + fn.args.kwonlyargs}
    roles = {}

    def bind(target, text):
        if isinstance(target, ast.Name):
            if target.id not in params:
                roles.setdefault(target.id, text)
        elif isinstance(target, (ast.Tuple, ast.List)):
            for i, t in enumerate(target.elts):
                bind(t, '%s#%d' % (text, i))

    class V(ast.NodeVisitor):
        def visit_Assign(self, node):
            for t in node.targets:
                bind(t, ast.unparse(node.value))
            self.generic_visit(node)

        def visit_AugAssign(self, node):
            self.generic_visit(node)

        def visit_For(self, node):
            bind(node.target, 'for:' + ast.unparse(node.iter))
            self.generic_visit(node)

        def visit_With(self, node):
            for it in node.items:
                if it.optional_vars is not None:
                    bind(it.optional_vars, 'with:' + ast.unparse(it.context_expr))
            self.generic_visit(node)

        def visit_ExceptHandler(self, node):
            if node.name and node.name not in params:
                roles.setdefault(node.name, 'except:' + (ast.unparse(node.type) if node.type else ''))
            self.generic_visit(node)
    for st in fn.body:
        V().visit(st)
    return roles


def contract_locals(c, fn):
    """Names of locals of `fn` (not parameters) that clauses evaluated inside the function mention."""
    params = {a.arg for a in fn.args.args + fn.args.kwonlyargs}
    locs = {n.id for n in ast.walk(fn) if isinstance(n, ast.Name) and isinstance(n.ctx, ast.Store)} - params
    used = set()
    groups = [cl for l in c.loops.values() for cl in l.invariant]
    groups += [cl for cls in c.call_asserts.values() for cl in cls]
    groups += [cl for cls in c.at_return.values() for cl in cls]
    groups += list(c.on_yield)
    for cl in groups:
        used |= {n.id for n in ast.walk(cl.tree) if isinstance(n, ast.Name)} & locs
    used |= set(getattr(c, 'locals_types', {})) & locs
    return used


_CACHE = None


def load():
    global _CACHE
    if _CACHE is None:
        try:
            _CACHE = json.load(open(ROLES_FILE))
        except (OSError, ValueError):
            _CACHE = {}
    return _CACHE


def aliases(contract_key, twin, fn):
    """{name used by the contract: local of the current source} for names that disappeared and have a unique role match."""
    want = load().get('%s[%s]' % (contract_key, twin), {})
    if not want:
        return {}
    have = function_roles(fn)
    out = {}
    for name, role in want.items():
        if name in have:
            continue
        cands = [l for l, r in have.items() if l not in want and _same(r, role, out)]
        if len(cands) == 1:
            out[name] = cands[0]
    return out


def _same(r, role, known):
    if r == role:
        return True
    # the role text may itself mention renamed locals already resolved
    for old, new in known.items():
        role = _rename(role, old, new)
    return r == role


def _rename(text, old, new):
    try:
        head, sep, tail = text.partition(':') if text.split(':')[0] in ('for', 'with', 'except') else ('', '', text)
        idx = ''
        if '#' in tail and tail.rsplit('#', 1)[1].isdigit():
            tail, i = tail.rsplit('#', 1)
            idx = '#' + i
        tree = ast.parse(tail, mode='eval')
        for n in ast.walk(tree):
            if isinstance(n, ast.Name) and n.id == old:
                n.id = new
        return head + sep + ast.unparse(tree) + idx
    except SyntaxError:
        return text


def main():
    import sys
    sys.path.insert(0, VERIF)
    from pyvc import driver, dsl, source
    driver.load_contracts()
    S = source.Sources(os.environ.get('PYVC_REPO', '/repo'))
    out = {}
    for k, c in dsl.CONTRACTS.items():
        if not c.real or c.trusted:
            continue
        for twin in c.twins:
            try:
                m, fn = S.function(c.real[twin])
            except (KeyError, OSError):
                continue
            used = contract_locals(c, fn)
            if used:
                roles = function_roles(fn)
                out['%s[%s]' % (k, twin)] = {n: roles[n] for n in sorted(used) if n in roles}
    if '--write' in sys.argv:
        json.dump(out, open(ROLES_FILE, 'w'), indent=1, sort_keys=True)
        print('wrote %s (%d functions)' % (ROLES_FILE, len(out)))
    else:
        print(json.dumps(out, indent=1, sort_keys=True))


if __name__ == '__main__':
    main()
