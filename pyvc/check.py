"""./check <property> [--tier quick|thorough]  -- decide one property on /repo's current working tree.

Exit codes: 0 held (every obligation discharged; known findings printed as KNOWN-FINDING lines)
            1 violation: a line `VIOLATION property=<id> replay=<path>` per refuted obligation
            2 undecided (solver unknown / timeout / construct outside the encoded subset / stale contract); no VIOLATION line
            3 checker failure
"""
import argparse
import collections
import hashlib
import json
import os
import re
import sys
import time
import traceback

VERIF = os.path.dirname(os.path.dirname(os.path.abspath(__file__)))
if VERIF not in sys.path:
    sys.path.insert(0, VERIF)

from pyvc import driver, dsl, solve, source, specfuns as SF      # noqa: E402
from pyvc.world import LIB_AXIOMS                                # noqa: E402

ASSUMPTIONS = {
    'A-LOG': 'calls on _LOGGER neither raise nor change program state (dropped by the front end)',
    'A-MSG': 'building an exception message (formatting its arguments) does not itself raise and has no effect',
    'A-REAL': 'float timeouts and time.time() are treated as mathematical reals',
    'A-ALIAS': 'distinct parameters denote distinct objects; no method rebinding / monkey-patching',
    'A-AWAIT': 'async twin: `await e` is `e`, `async with/for/def` are `with/for/def` (task switches only at awaits)',
    'A-INT': 'Python ints are mathematical integers (exact: they are unbounded); 32-bit ranges appear only where the code enforces them',
    'A-EPOCH': 'the current time is a non-negative number of seconds below 2^32 - 1',
    'A-YIELD': 'the consumer of a generator does not touch the device stream between two next() calls',
    'A-CALLBACK': 'user callbacks (progress, auth) do not touch the device object',
    'A-WRITEONLY': 'an attribute outside the declared state that no expression of the package reads is not modelled',
    'A-PLAIN': 'declared fields are plain instance attributes (checked against the class source: a field that is a property makes the function undecided)',
    'A-RELY': 'C06/C01/C14: the per-function obligations under the rely step at lock acquisitions imply the property for every schedule '
              '(rely/guarantee meta-theorem); Lock is a mutex; one reader per stream',
    'A-SESSION': 'after a read of the device stream failed part-way only close()/connect() may follow a normal return (ghost G.broken); frame alignment of '
                 'the cursor is not modelled beyond that',
    'A-LIB': 'documented behaviour of socket / select / asyncio streams / async_timeout / usb1 / cryptography, rsa, Crypto is assumed (C17, C18, C20)',
}


def load_known():
    p = os.path.join(VERIF, 'known_findings.json')
    if not os.path.exists(p):
        return []
    return json.load(open(p))


def match_known(known, prop, name):
    for k in known:
        if k.get('status', 'known') != 'known' or k.get('property') != prop:
            continue
        if re.search(k['obligation'], name):
            return k
    return None


def main(argv=None):
    ap = argparse.ArgumentParser()
    ap.add_argument('prop')
    ap.add_argument('--tier', default=os.environ.get('VERIF_TIER', 'quick'))
    ap.add_argument('--jobs', type=int, default=None)
    ap.add_argument('--only', action='append')
    ap.add_argument('--replay')
    ap.add_argument('--no-evidence', action='store_true')
    ap.add_argument('-v', action='store_true')
    args = ap.parse_args(argv)
    if args.replay:
        from pyvc import replay
        return replay.main_replay(args.replay)
    seed = int(os.environ.get('VERIF_SEED', '0') or 0)
    t_start = time.time()
    try:
        return run(args, seed, t_start)
    except Exception:      # noqa
        traceback.print_exc()
        print('CHECKER-ERROR property=%s' % args.prop)
        return 3


def run(args, seed, t_start):
    prop = args.prop
    tier = args.tier
    timeout_ms = 20000 if tier == 'quick' else 60000
    driver.load_contracts()
    r = driver.Run(prop, tier, seed, jobs=args.jobs, only=args.only)
    r.generate()
    lemmas = r.lemmas()
    scans = r.framescans()
    if prop == 'C16':
        scans = c16_second_tier(scans, r, tier, seed, args.jobs)
    head, dirty = r.sources.git_state()

    # ---- queries ----------------------------------------------------------------------------------
    tasks = []
    qmap = {}
    by_name = collections.OrderedDict()
    for i, o in enumerate(r.obligations):
        q = '%s#q%d' % (o.name, i)
        qmap[q] = o
        by_name.setdefault(o.name, []).append(q)
        tasks.append((q, o.smt2, timeout_ms))
    lemma_names = {}
    for (name, smt2, doc) in lemmas:
        q = 'lemma/%s' % name
        lemma_names[q] = doc
        by_name.setdefault(q, []).append(q)
        tasks.append((q, smt2, timeout_ms))
    # vacuity covers: per function the entry cover (requires satisfiable) and up to three exit covers (some exit reachable)
    cover_tasks = []
    per_fn = collections.OrderedDict()
    for i, (name, smt2) in enumerate(r.covers):
        fn = name.split('/cover[')[0]
        label = name.split('/cover[')[1][:-1]
        per_fn.setdefault(fn, {'entry': None, 'exits': []})
        if label == 'entry':
            if per_fn[fn]['entry'] is None:
                per_fn[fn]['entry'] = (i, name, smt2)
        elif label == 'normal-exit' and len(per_fn[fn]['exits']) < 3:
            per_fn[fn]['exits'].append((i, name, smt2))
    for fn, d in per_fn.items():
        if not d['exits']:
            for i, (name, smt2) in enumerate(r.covers):
                if name.startswith(fn + '/cover[raise') and len(d['exits']) < 2:
                    d['exits'].append((i, name, smt2))
        for (i, name, smt2) in ([d['entry']] if d['entry'] else []) + d['exits']:
            cover_tasks.append(('cover#%d#%s' % (i, name), smt2, 4000))
    t_solve = time.time()
    res = solve.solve_all(tasks, jobs=args.jobs, both=(tier == 'thorough'))
    cres = solve.solve_all(cover_tasks, jobs=args.jobs, sat_first=True)
    solve_wall = time.time() - t_solve

    # ---- verdicts ---------------------------------------------------------------------------------
    known = load_known()
    violations, undecided, known_hits = [], [], []
    per_oblig = []
    discharged = 0
    solver_seconds = 0.0
    backends = collections.Counter()
    for name, qs in by_name.items():
        worst = 'unsat'
        rec = {'name': name, 'queries': len(qs), 'seconds': 0.0, 'backend': set()}
        bad_q = None
        for q in qs:
            v = res[q]
            rec['seconds'] += v['z3_s'] + v['cvc5_s']
            rec['backend'].add(v['backend'])
            if tier == 'thorough' and v.get('cvc5_result') in ('sat', 'unsat') and v['result'] in ('sat', 'unsat') and v['cvc5_result'] != v['result']:
                print('CHECKER-ERROR solver disagreement on %s: z3=%s cvc5=%s' % (q, v['result'], v['cvc5_result']))
                return 3
            if v['result'] == 'sat':
                worst = 'sat'
                bad_q = bad_q or q
            elif v['result'] != 'unsat' and worst != 'sat':
                worst = 'unknown'
                bad_q = bad_q or q
        solver_seconds += rec['seconds']
        rec['backend'] = '+'.join(sorted(rec['backend']))
        rec['seconds'] = round(rec['seconds'], 3)
        rec['result'] = worst
        backends[rec['backend']] += 1
        o = qmap.get(qs[0])
        if o is not None:
            rec['expr'] = o.expr
            rec['where'] = o.where
            rec['kind'] = o.kind
        per_oblig.append(rec)
        if worst == 'unsat':
            discharged += 1
        else:
            k = match_known(known, prop, name)
            if k is not None:
                known_hits.append((k, name, worst))
                rec['known_finding'] = k.get('id')
            elif worst == 'sat':
                violations.append((name, bad_q))
            else:
                undecided.append((name, res[bad_q].get('reason', '')))
    scan_records = []
    for name, problems, doc in scans:
        # a scan may report that it cannot decide (e.g. a new method no contract speaks about): 'UNDECIDED: ...' entries
        und = [x for x in problems if isinstance(x, str) and x.startswith('UNDECIDED:')]
        for pr in und:
            r.undecided.append(('frame/%s' % name, pr[len('UNDECIDED:'):].strip()))
        problems = [x for x in problems if not (isinstance(x, str) and x.startswith('UNDECIDED:'))]
        ok = not problems
        full = 'frame/%s' % name
        if und and ok:
            per_oblig.append({'name': full, 'queries': 1, 'seconds': 0.0, 'backend': 'ast-frame', 'result': 'unknown', 'expr': doc, 'kind': 'frame-scan',
                              'problems': und})
            by_name[full] = []
            continue
        per_oblig.append({'name': full, 'queries': 1, 'seconds': 0.0, 'backend': 'ast-frame', 'result': 'unsat' if ok else 'sat',
                          'expr': doc, 'kind': 'frame-scan', 'problems': problems})
        backends['ast-frame'] += 1
        by_name[full] = []
        if ok:
            discharged += 1
        else:
            k = match_known(known, prop, full)
            if k is not None:
                known_hits.append((k, full, 'sat'))
            else:
                violations.append((full, None))

    # ---- vacuity ----------------------------------------------------------------------------------
    vac_problems = []
    cover_stats = collections.Counter()
    fn_exit = collections.defaultdict(lambda: {'entry': None, 'exits_sat': 0})
    for cname, v in cres.items():
        _, _, name = cname.split('#', 2)
        fn = name.split('/cover[')[0]
        label = name.split('/cover[')[1][:-1]
        cover_stats[v['result']] += 1
        if label == 'entry':
            fn_exit[fn]['entry'] = v['result']
        elif v['result'] in ('sat', 'unknown'):
            fn_exit[fn]['exits_sat'] += 1
    for fn, st in fn_exit.items():
        if st['entry'] == 'unsat':
            vac_problems.append('%s: precondition is contradictory' % fn)
        elif st['exits_sat'] == 0:
            vac_problems.append('%s: no satisfiable exit (vacuous contract?)' % fn)
    n_oblig = len(by_name)
    if n_oblig == 0 and not r.undecided:
        vac_problems.append('no obligations were generated for %s' % prop)

    # ---- bounded stand-in: scenario sets on the real code against the simulated adbd (labelled bounded, never counted as proved)
    sim = run_sim(prop, tier)

    # ---- report -----------------------------------------------------------------------------------
    exit_code = 0
    for k, name, worst in known_hits:
        print('KNOWN-FINDING: property=%s %s -- %s [%s]' % (prop, k.get('id', ''), k.get('what', ''), name))
    replay_paths = []
    sim_fail = (sim or {}).get('failures') or []
    if violations:
        from pyvc import replay
        for name, q in violations:
            path, confirmed = replay.write_and_run(prop, name, q, qmap.get(q), res.get(q), r, per_oblig, sim_failure=sim_fail[0] if sim_fail else None)
            suffix = '' if confirmed else ' no-failing-input-found'
            print('VIOLATION property=%s replay=%s obligation=%s%s' % (prop, path, name, suffix))
            replay_paths.append(path)
        exit_code = 1
    elif sim_fail:
        # no obligation was refuted (some may be undecided), but the bounded stand-in found a concrete failing input on the real code
        from pyvc import replay
        for k, f in enumerate(sim_fail[:3]):
            path = replay.write_sim_failure(prop, k, f)
            print('VIOLATION property=%s replay=%s obligation=bounded-stand-in/%s' % (prop, path, re.sub(r'\s+', '-', f['what'])[:120]))
            replay_paths.append(path)
        violations = [('bounded-stand-in', None)] * min(3, len(sim_fail))
        exit_code = 1
    if (undecided or r.undecided) and exit_code == 0:
        exit_code = 2
    for name, why in undecided:
        print('UNDECIDED property=%s obligation=%s reason=%s' % (prop, name, why))
    for what, why in r.undecided:
        print('UNDECIDED property=%s function=%s reason=%s' % (prop, what, why))
    if vac_problems:
        for p in vac_problems:
            print('CHECKER-ERROR vacuity: %s' % p)
        if exit_code == 0:
            exit_code = 3
    n_known = len({name for _, name, _ in known_hits})
    wall = time.time() - t_start
    print('%s tier=%s obligations=%d discharged=%d known-findings=%d violations=%d undecided=%d queries=%d solver=%.1fs wall=%.1fs exit=%d'
          % (prop, tier, n_oblig - n_known, discharged, n_known, len(violations), len(undecided) + len(r.undecided), len(tasks), solver_seconds, wall, exit_code))

    if not args.no_evidence and not args.only:
        write_evidence(prop, tier, seed, r, per_oblig, n_oblig - n_known, discharged, violations, undecided, known_hits, backends,
                       solver_seconds, wall, head, dirty, cover_stats, lemma_names, exit_code, sim)
    return exit_code


def c16_second_tier(scans, r, tier, seed, jobs):
    """C16, pairs whose normal forms differ (contracts/twins.py): decide the pair by its shared contract instead -- generate every
    obligation of that contract, for every property it carries, for both twins, and add them to this run under
    `C16/<pair>/shared-contract[<prop>]/...`.  No contract on the pair: undecided."""
    out = []
    for name, problems, doc in scans:
        differ = [p for p in problems if p.startswith('normal forms differ')]
        if not differ or not name.endswith('twin-normal-forms-equal[sync]'):
            out.append((name, problems, doc))
            continue
        pair = name.split('/')[1]
        keys = [k for k, c in dsl.CONTRACTS.items() if c.real and not c.trusted and c.real.get('sync', '').split(':')[-1] == pair
                and c.real.get('sync', '').split(':')[0] in ('adb_device',) and 'async' in c.real]
        rest = [p for p in problems if p not in differ]
        if not keys:
            r.undecided.append((name, differ[0] + '; the pair has no contract to decide it by'))
            if rest:
                out.append((name, rest, doc))
            continue
        n_added = 0
        skeletons = {'sync': {}, 'async': {}}
        skeleton_pcs = {}
        for key in keys:
            c = dsl.CONTRACTS[key]
            for p in sorted(c.props):
                rr = driver.Run(p, tier, seed, jobs=jobs, only=['=' + key])
                os.environ['PYVC_SKELETON_PC'] = '1'
                try:
                    rr.generate()
                finally:
                    os.environ.pop('PYVC_SKELETON_PC', None)
                for ckey, twin, variant, traces, pcs in rr.traces:
                    if '__twin__' not in variant:
                        skeletons[twin].setdefault((ckey, variant), set()).update(traces)
                        for k_, q_ in pcs.items():
                            skeleton_pcs.setdefault((twin, ckey, variant, k_), q_)
                for o in rr.obligations:
                    o.name = 'C16/%s/shared-contract[%s]/%s' % (pair, p, o.name)
                    r.obligations.append(o)
                    n_added += 1
                for what, why in rr.undecided:
                    r.undecided.append(('C16/%s/shared-contract[%s]/%s' % (pair, p, what), why))
                r.functions.extend(f for f in rr.functions if f not in r.functions)
                r.used_axioms.update(rr.used_axioms)
                r.sf_axioms.update(rr.sf_axioms)
                r.stats['paths'] += rr.stats['paths']
        # relational part: the two twins must have the same set of call skeletons (callees under contract in call order with their
        # outcome kind, and how the path ends) -- an extra / missing / re-ordered call or a different exit on some path is a difference
        # no shared contract can excuse
        skel_problems = []
        cand = []
        for kv in sorted(set(skeletons['sync']) | set(skeletons['async'])):
            a, b = skeletons['sync'].get(kv), skeletons['async'].get(kv)
            if a is None or b is None:
                continue
            for which, only in (('sync', a - b), ('async', b - a)):
                for sk in sorted(only):
                    cand.append((which, kv, sk))
        # a skeleton that only one twin has counts only if its path is really feasible (the path condition is satisfiable): the
        # generator prunes paths on an abstraction, which may keep an infeasible path in one twin and not in the other
        qs = [('skel#%d' % i, skeleton_pcs[(which, kv[0], kv[1], sk)], 10000) for i, (which, kv, sk) in enumerate(cand)
              if (which, kv[0], kv[1], sk) in skeleton_pcs]
        feas = solve.solve_all(qs, jobs=jobs, sat_first=True) if qs else {}
        for i, (which, kv, (ev, end)) in enumerate(cand):
            verdict = feas.get('skel#%d' % i, {}).get('result', 'sat')
            text = ('%s%s: only the %s twin has a path calling [%s] and ending in %s'
                    % (kv[0], kv[1] if kv[1] != '[]' else '', which, ', '.join('%s:%s' % e for e in ev), end))
            if verdict == 'unsat':
                continue
            if verdict == 'sat':
                skel_problems.append(text)
            else:
                skel_problems.append('UNDECIDED: ' + text + ' (feasibility of that path not decided)')
        print('C16 note: %s -- %s; decided by the shared contract of the pair (%d obligations over both twins) and by call-skeleton equality (%s)'
              % (pair, differ[0], n_added, 'equal' if not skel_problems else '%d differences' % len(skel_problems)))
        if skel_problems:
            out.append(('C16/%s/twins-have-the-same-call-skeletons[sync]' % pair, skel_problems[:6],
                        'same callees in the same order with the same outcome kinds and the same kind of exit on every path'))
        out.append((name.replace('twin-normal-forms-equal', 'twins-differ-textually;decided-by-shared-contract'), rest,
                    'normal forms differ; both twins are checked against the same contract instead'))
    return out


def trusted_base(r):
    used = set(r.used_axioms)
    out = ['pyvc encoding of the Python subset (DESIGN.md 2.2), z3 5.1 / cvc5 1.0.3']
    for a in sorted(used):
        out.append('library axiom %s: %s' % (a, LIB_AXIOMS.get(a, '(see pyvc/world.py)')))
    for a in sorted(r.sf_axioms):
        out.append('spec-function axiom instances: ' + a)
    trusted = []
    for c in dsl.CONTRACTS.values():
        if c.trusted:
            trusted.append(c.key)
    out.append('assumed (trusted, unverified) contracts in scope: ' + ', '.join(sorted(trusted)))
    return out


def run_sim(prop, tier):
    """The bounded scenario set of the property on the real code (same tree as the obligations), under /venv/bin/python."""
    import subprocess
    simdir = os.path.join(VERIF, 'sim')
    if not os.path.isdir(simdir):
        return None
    os.makedirs(os.path.join(VERIF, 'replay'), exist_ok=True)
    out = os.path.join(VERIF, 'replay', '%s-sim.%d.json' % (prop, os.getpid()))      # per process: concurrent checks of one property do not clash
    try:
        os.unlink(out)
    except OSError:
        pass
    env = dict(os.environ)
    env.setdefault('PYVC_REPO', '/repo')
    env['PYTHONPATH'] = VERIF
    budget = 'thorough' if tier == 'thorough' else 'quick'
    try:
        p = subprocess.run(['/venv/bin/python', '-m', 'sim.run', prop, '--budget', budget, '--out', out], cwd=VERIF, env=env, capture_output=True, text=True,
                           timeout=400 if budget == 'quick' else 3000)
    except subprocess.TimeoutExpired:
        return {'scenarios_run': 0, 'failures': [], 'note': 'bounded stand-in timed out'}
    if not os.path.exists(out):
        return {'scenarios_run': 0, 'failures': [], 'note': 'bounded stand-in did not run: ' + (p.stderr or p.stdout)[-300:]}
    try:
        return json.load(open(out))
    finally:
        os.unlink(out)


def write_evidence(prop, tier, seed, r, per_oblig, n_oblig, discharged, violations, undecided, known_hits, backends, solver_seconds, wall,
                   head, dirty, cover_stats, lemma_names, exit_code, sim=None):
    samples = []
    for rec in per_oblig[:]:
        if len(samples) >= 6:
            break
        if rec.get('expr'):
            samples.append({'obligation': rec['name'], 'claim': rec['expr'], 'at': rec.get('where', ''), 'result': rec['result'], 'backend': rec['backend']})
    meta = json.load(open(os.path.join(VERIF, 'contracts', 'properties_meta.json'))) if os.path.exists(os.path.join(VERIF, 'contracts', 'properties_meta.json')) else {}
    pm = meta.get(prop, {})
    ev = {
        'property_id': prop, 'tier': tier, 'seed': seed, 'level': pm.get('level', 'proof'),
        'coverage': {
            'obligations': n_oblig, 'discharged': min(discharged, n_oblig) if not violations else discharged,
            'checker_cmd': './check %s --tier %s' % (prop, tier),
            'trusted_base': trusted_base(r),
            'samples': samples,
            'queries': sum(rec['queries'] for rec in per_oblig),
            'by_backend': dict(backends),
            'solver_seconds': round(solver_seconds, 2),
            'functions_under_contract': r.functions,
            'lemmas': sorted(lemma_names),
            'covers': dict(cover_stats),
            'paths_explored': r.stats['paths'],
            'per_obligation': [{k: v for k, v in rec.items() if k in ('name', 'queries', 'seconds', 'backend', 'result', 'kind', 'known_finding')} for rec in per_oblig],
            'bounded_standins': [{'what': 'scenario sets on the real code against the simulated adbd (sim/)', 'scenarios_run': (sim or {}).get('scenarios_run', 0),
                                  'failures': len((sim or {}).get('failures') or []), 'bounds': (sim or {}).get('bounds', ''), 'note': (sim or {}).get('note', ''),
                                  'counted_as_proved': False}] if sim is not None else [],
            'known_findings_matched': [{'id': k.get('id'), 'obligation': n} for k, n, _ in known_hits],
            'source_sha256': r.sources.hashes(),
            'front_end_dropped': {'async_normalisation': r.sources.dropped(), 'also': 'docstrings, comments, _LOGGER calls, exception-message arguments'},
            'repo_head': head, 'repo_dirty': dirty,
            'undecided': [n for n, _ in undecided] + [w for w, _ in r.undecided],
            'exit_code': exit_code,
        },
        'assumptions': ['%s: %s' % kv for kv in sorted(ASSUMPTIONS.items())] + pm.get('assumptions', []),
        'wall_s': round(wall, 2),
        'violations': len(violations),
    }
    os.makedirs(os.path.join(VERIF, 'evidence'), exist_ok=True)
    with open(os.path.join(VERIF, 'evidence', '%s.json' % prop), 'w') as f:
        json.dump(ev, f, indent=1, sort_keys=True, default=str)


if __name__ == '__main__':
    sys.exit(main())
