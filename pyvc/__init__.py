"""pyvc -- contract-based deductive verification of the real adb_shell sources.

Python AST of the functions in /repo  ->  symbolic execution against sidecar
contracts  ->  verification conditions  ->  z3 (+ cvc5 for what z3 leaves open).
See /verif/DESIGN.md section 2.
"""
