"""Symbolic executor: runs the AST of a real function against its contract and emits obligations.

Exploration is by deterministic re-execution: a path is a list of branch decisions; every run replays
a decision prefix and pushes the alternatives it meets.  Loops are cut at their head with the
contract's invariant; calls use the callee's contract (or, for small un-contracted helpers of the same
package, the callee's body).  Nothing here decides anything: it only produces named implications
`path condition => claim`, discharged by pyvc.solve.
"""
import ast
import os
import sys
import itertools
import z3

from . import dsl
from . import specfuns as SF
from .values import *    # noqa
from .values import Unsupported, CMD_UNIVERSE
from .abstraction import unsat_abstract

TWO32 = 2 ** 32


class PathEnd(Exception):
    """This path is finished (cut back-edge, infeasible, assumed false)."""


class ReturnSig(Exception):
    def __init__(self, value):
        self.value = value


class BreakSig(Exception):
    pass


class ContinueSig(Exception):
    pass


# Exceptions after which the device stream may have been consumed part-way (the session is "broken": only close() / connect() may follow
# a normal return).  A callee that reads the stream (its modifies names G.rpos) leaves G.broken arbitrary when it raises one of these; no
# function may return NORMALLY, nor start another loop iteration, with G.broken changed -- i.e. after swallowing such a failure.
STREAM_FAILURES = ('AnyError', 'AdbTimeoutError', 'InvalidCommandError', 'InvalidChecksumError')


class RaiseSig(Exception):
    def __init__(self, exc):
        self.exc = exc


class Obligation(object):
    __slots__ = ('name', 'props', 'pc', 'claim', 'kind', 'where', 'path', 'trace', 'expr', 'meta')

    def __init__(self, name, props, pc, claim, kind, where, path, expr='', meta=None):
        self.name = name
        self.props = props
        self.pc = pc
        self.claim = claim
        self.kind = kind
        self.where = where
        self.path = path
        self.expr = expr
        self.meta = meta or {}


# exception hierarchy of the builtins that matter (repo exceptions all derive from Exception directly)
BUILTIN_EXC_PARENTS = {
    'Exception': 'BaseException', 'OSError': 'Exception', 'IOError': 'Exception', 'ValueError': 'Exception', 'KeyError': 'LookupError',
    'IndexError': 'LookupError', 'LookupError': 'Exception', 'TypeError': 'Exception', 'struct.error': 'Exception',
    'io.UnsupportedOperation': 'OSError', 'FileNotFoundError': 'OSError', 'AssertionError': 'Exception',
    'asyncio.TimeoutError': 'Exception', 'asyncio.QueueEmpty': 'Exception', 'StopIteration': 'Exception',
    'AttributeError': 'Exception', 'ImportError': 'Exception', 'UnicodeDecodeError': 'ValueError', 'OverflowError': 'ArithmeticError',
    'ArithmeticError': 'Exception', 'ZeroDivisionError': 'ArithmeticError',
    'AnyError': 'Exception',            # "any exception" raised by an abstract callee
    'usb1.USBError': 'Exception', 'usb1.USBErrorNotFound': 'usb1.USBError', 'usb1.USBErrorTimeout': 'usb1.USBError',
    'ConnectionError': 'OSError', 'socket.timeout': 'OSError',
}
# the remaining documented python-libusb1 error classes, all direct subclasses of USBError
for _n in ['IO', 'InvalidParam', 'Access', 'NoDevice', 'Busy', 'Overflow', 'Pipe', 'Interrupted', 'NoMem', 'NotSupported', 'Other']:
    BUILTIN_EXC_PARENTS['usb1.USBError' + _n] = 'usb1.USBError'


def exc_is_subclass(cls, parent):
    """Is exception class `cls` a subclass of `parent`?  Repo exceptions derive directly from Exception."""
    if parent == 'BaseException':
        return True
    c = cls
    for _ in range(12):
        if c == parent:
            return True
        if c in ('BaseException', None):
            return False
        c = BUILTIN_EXC_PARENTS.get(c, 'Exception' if c != 'Exception' else 'BaseException')
    return False


_QCACHE = {}


def has_quantifier(t):
    key = t.get_id()
    hit = _QCACHE.get(key)
    if hit is not None and hit[0].eq(t):
        return hit[1]
    stack = [t]
    seen = set()
    res = False
    while stack:
        x = stack.pop()
        if x.get_id() in seen:
            continue
        seen.add(x.get_id())
        if z3.is_quantifier(x):
            res = True
            break
        if z3.is_app(x):
            stack.extend(x.children())
    _QCACHE[key] = (t, res)
    return res


def flatten_and(tree):
    if isinstance(tree, ast.BoolOp) and isinstance(tree.op, ast.And):
        out = []
        for v in tree.values:
            out.extend(flatten_and(v))
        return out
    return [tree]


def mentions(tree, target):
    """Does `tree` mention the expression `target` outside old(...)?"""
    want = ast.dump(target)

    def walk(n):
        if isinstance(n, ast.Call) and isinstance(n.func, ast.Name) and n.func.id == 'old':
            return False
        if isinstance(n, ast.AST) and ast.dump(n) == want:
            return True
        return any(walk(c) for c in ast.iter_child_nodes(n))
    return walk(tree)


def map_ite_leaves(t, fn):
    """Apply a concrete int function to every leaf of an if-then-else tree of integer literals (None if not such a tree)."""
    if z3.is_int_value(t):
        return z3.IntVal(fn(t.as_long()))
    if z3.is_app(t) and t.decl().kind() == z3.Z3_OP_ITE:
        a = map_ite_leaves(t.arg(1), fn)
        b = map_ite_leaves(t.arg(2), fn)
        if a is None or b is None:
            return None
        return z3.If(t.arg(0), a, b)
    return None


class TypeSpec(object):
    """Parses type strings: int bool real bytes bytearray str none opaque:tag lock:name cmdset
    opt[T] tuple[T,...] list[T] obj:Class"""

    @staticmethod
    def split_args(s):
        out, depth, cur = [], 0, ''
        for ch in s:
            if ch == '[':
                depth += 1
            if ch == ']':
                depth -= 1
            if ch == ',' and depth == 0:
                out.append(cur.strip())
                cur = ''
            else:
                cur += ch
        if cur.strip():
            out.append(cur.strip())
        return out


class Executor(object):
    def __init__(self, sources, twin, world):
        self.sources = sources
        self.twin = twin
        self.world = world                # pyvc.world.World: lib handlers, class map
        self.obligs = []
        self.covers = []
        self.work = []
        self.stats = {'paths': 0, 'feasibility_checks': 0, 'calls': 0}
        self.feas_cache = {}
        self.only_props = None
        self.current = None
        self.fsolver_timeout = 200

    # ------------------------------------------------------------------------------------------
    # path management

    def reset_path(self, prefix):
        self.prefix = list(prefix)
        self.decisions = []
        self.pc = []
        self.fresh_n = itertools.count()
        self.trace = []
        if not hasattr(self, 'path_traces'):
            self.path_traces = set()
            self.path_trace_pcs = {}
        self.loop_counter = {}
        self.frames = []
        self.mode = 'code'
        self.cur_loop_idx = None
        self.assume_ctx = []
        VObj._n = 0

    def fresh_name(self, base):
        return '%s!%d' % (base, next(self.fresh_n))

    def emitting(self):
        return len(self.decisions) >= len(self.prefix)

    def feasible(self, cond):
        """Path pruning on the arithmetic abstraction only (see pyvc/abstraction.py): `infeasible` is certain, `feasible` is not."""
        self.stats['feasibility_checks'] += 1
        return not unsat_abstract(self.pc + [cond], self.fsolver_timeout)

    def branch(self, cond):
        c = z3.simplify(cond)
        if z3.is_true(c):
            return True
        if z3.is_false(c):
            return False
        k = len(self.decisions)
        if k < len(self.prefix):
            d = self.prefix[k]
        else:
            t_ok = self.feasible(c)
            f_ok = self.feasible(z3.Not(c))
            if t_ok and f_ok:
                self.work.append(self.decisions + [False])
                d = True
            elif t_ok:
                d = True
            elif f_ok:
                d = False
            else:
                raise PathEnd()
        self.decisions.append(d)
        self.pc.append(c if d else z3.Not(c))
        return d

    def entails(self, f):
        """The path condition implies f, decided on the arithmetic abstraction (a `no` is always safe for the callers)."""
        return unsat_abstract(self.pc + [z3.Not(f)], 2000)

    def choose(self, label):
        """A nondeterministic binary choice (callee raises / does not raise ...)."""
        b = z3.Bool(self.fresh_name('choice_' + label))
        return self.branch(b)

    def assume(self, f):
        f = z3.simplify(f)
        if z3.is_false(f):
            raise PathEnd()
        if not z3.is_true(f):
            self.pc.append(f)

    def oblige(self, name, claim, props, kind, expr='', meta=None):
        if not self.emitting():
            return
        if self.only_props is not None and props is not None and not (set(props) & self.only_props):
            return
        claim = z3.simplify(claim)
        if z3.is_true(claim):
            # still counts as an obligation (trivially discharged by the simplifier) -- record it
            pass
        where = self.where()
        full = '%s/%s' % (self.current_name, name)
        self.obligs.append(Obligation(full, set(props) if props else set(), list(self.pc) + list(self.assume_ctx), claim, kind, where,
                                      tuple(self.decisions), expr=expr, meta=dict(meta or {}, trace_len=len(self.trace))))

    def where(self):
        n = getattr(self, 'cur_node', None)
        return '%s:%s' % (self.cur_module.path if self.cur_module else '?', getattr(n, 'lineno', '?'))

    # ------------------------------------------------------------------------------------------
    # fresh values by type

    def fresh(self, typ, name):
        typ = typ.strip()
        n = self.fresh_name(name)
        if typ == 'int':
            return VInt(z3.Int(n))
        if typ in ('u32', 'word'):
            v = z3.Int(n)
            self.assume(z3.And(v >= 0, v < TWO32))
            return VInt(v)
        if typ == 'nat':
            v = z3.Int(n)
            self.assume(v >= 0)
            return VInt(v)
        if typ == 'bool':
            return VBool(z3.Bool(n))
        if typ == 'real':
            return VReal(z3.Real(n))
        if typ == 'bytes':
            return VBytes(z3.Const(n, Bytes), False)
        if typ == 'bytearray':
            return VBytes(z3.Const(n, Bytes), True)
        if typ == 'str':
            return VStr(z3.Const(n, Bytes))
        if typ == 'none':
            return NONE
        if typ == 'cmdset':
            return VCmdSet({c: z3.Bool('%s[%s]' % (n, c.decode())) for c in CMD_UNIVERSE})
        if typ.startswith('opt['):
            inner = self.fresh(typ[4:-1], name)
            if isinstance(inner, (VObj,)):
                raise Unsupported('optional object type')
            return VOpt(z3.Bool(n + '?none'), inner)
        if typ.startswith('tuple['):
            parts = TypeSpec.split_args(typ[6:-1])
            return VTuple([self.fresh(p, '%s.%d' % (name, i)) for i, p in enumerate(parts)])
        if typ.startswith('list['):
            return self.fresh_seq(typ[5:-1], name)
        if typ.startswith('obj:'):
            return self.fresh_obj(typ[4:], name)
        if typ.startswith('opaque'):
            tag = typ.split(':', 1)[1] if ':' in typ else name
            return VOpaque(tag, z3.Int(n))
        if typ.startswith('lock:'):
            return VLock(typ[5:])
        if typ.startswith('lit:'):
            return self.world.py_to_value(ast.literal_eval(typ[4:]), name)
        if typ == 'any':
            raise Unsupported('cannot create a value of type any')
        if typ == 'dict2':
            return self.world.fresh_dict2(self, n)
        if typ in self.world.custom_types:
            return self.world.custom_types[typ](self, n)
        raise Unsupported('unknown type %r' % typ)

    def fresh_seq(self, etype, name):
        n = self.fresh_name(name)
        length = z3.Int(n + '.len')
        self.assume(length >= 0)
        return self.mk_seq(etype, n, length)

    def mk_seq(self, etype, n, length):
        etype = etype.strip()
        if etype in ('int', 'u32'):
            arr = z3.Const(n + '.a', z3.ArraySort(IntS, IntS))
            return VSeq(length, lambda i, a=arr: VInt(z3.Select(a, i)), etype, [arr])
        if etype in ('bytes', 'str', 'bytearray'):
            arr = z3.Const(n + '.a', z3.ArraySort(IntS, Bytes))
            mk = VStr if etype == 'str' else (lambda t, ba=(etype == 'bytearray'): VBytes(t, ba))
            return VSeq(length, lambda i, a=arr: mk(z3.Select(a, i)), etype, [arr])
        if etype.startswith('opaque'):
            tag = etype.split(':', 1)[1] if ':' in etype else 'x'
            arr = z3.Const(n + '.a', z3.ArraySort(IntS, IntS))
            return VSeq(length, lambda i, a=arr: VOpaque(tag, z3.Select(a, i)), etype, [arr])
        if etype.startswith('tuple['):
            parts = TypeSpec.split_args(etype[6:-1])
            subs = [self.mk_seq(p, '%s.%d' % (n, k), length) for k, p in enumerate(parts)]
            comps = [c for s in subs for c in s.comps]
            return VSeq(length, lambda i, ss=subs: VTuple([s.elem(i) for s in ss]), etype, comps)
        raise Unsupported('list element type %r' % etype)

    def fresh_obj(self, cls, name):
        decl = dsl.CLASSES.get(cls)
        if decl is None:
            raise Unsupported('undeclared class %r' % cls)
        o = VObj(cls, name=name)
        for f, t in decl.fields.items():
            o.fields[f] = self.fresh(t, '%s.%s' % (name, f))
        inv = self.world.class_invariants.get(cls)
        if inv:
            inv(self, o)
        return o

    def refresh_like(self, v, name):
        """A fresh value of the same kind as v (havoc)."""
        n = self.fresh_name(name)
        if isinstance(v, VInt):
            return VInt(z3.Int(n))
        if isinstance(v, VBool):
            return VBool(z3.Bool(n))
        if isinstance(v, VReal):
            return VReal(z3.Real(n))
        if isinstance(v, VBytes):
            return VBytes(z3.Const(n, Bytes), v.ba)
        if isinstance(v, VStr):
            return VStr(z3.Const(n, Bytes))
        if isinstance(v, VNone):
            return v
        if isinstance(v, VOpt):
            return VOpt(z3.Bool(n + '?none'), self.refresh_like(v.val, name))
        if isinstance(v, VTuple):
            return VTuple([self.refresh_like(x, name) for x in v.items])
        if isinstance(v, VCmdSet):
            return VCmdSet({c: z3.Bool('%s[%s]' % (n, c.decode())) for c in CMD_UNIVERSE})
        if isinstance(v, VSeq):
            length = z3.Int(n + '.len')
            self.assume(length >= 0)
            return self.mk_seq(v.etype, n, length)
        if isinstance(v, VOpaque):
            return VOpaque(v.tag, z3.Int(n))
        if isinstance(v, VDict2):
            return self.world.fresh_dict2(self, n)
        if isinstance(v, VMap):
            return VMap(z3.Const(n, v.arr.sort()))
        if isinstance(v, (VObj, VLock, VClass, VFunc, VModule)):
            return v
        raise Unsupported('cannot havoc %r' % (v,))

    # ------------------------------------------------------------------------------------------
    # state snapshots (for old(...)) and frames

    def all_objects(self):
        seen = {}
        stack = [v for v in self.env.values()] + [self.G]
        stack += list(getattr(self, 'extra_roots', []))
        while stack:
            v = stack.pop()
            if isinstance(v, VObj):
                if id(v) in seen:
                    continue
                seen[id(v)] = v
                stack.extend(v.fields.values())
            elif isinstance(v, (VTuple, VList)):
                stack.extend(v.items)
            elif isinstance(v, VOpt) and v.val is not None:
                stack.append(v.val)
        return list(seen.values())

    def snapshot(self):
        return {id(o): (o, dict(o.fields)) for o in self.all_objects()}

    class _Old(object):
        def __init__(self, ex, snap, env=None):
            self.ex, self.snap, self.env = ex, snap, env

        def __enter__(self):
            self.saved = {k: dict(o.fields) for k, (o, _) in self.snap.items()}
            for k, (o, f) in self.snap.items():
                o.fields = dict(f)
            if self.env is not None:
                self.saved_env = self.ex.env
                self.ex.env = self.env

        def __exit__(self, *a):
            for k, (o, _) in self.snap.items():
                o.fields = self.saved[k]
            if self.env is not None:
                self.ex.env = self.saved_env

    # ------------------------------------------------------------------------------------------
    # modifies / havoc

    def resolve_path(self, path, roots):
        """'adb_info.remote_id' | 'G.now' | 'self._io_manager._packet_store.*'  ->  list of (obj, field)"""
        parts = path.split('.')
        root = parts[0]
        if root == 'G':
            cur = self.G
        elif root in roots:
            cur = roots[root]
        else:
            raise Unsupported('modifies root %r unknown' % root)
        for p in parts[1:-1]:
            if isinstance(cur, VOpt):
                cur = cur.val
            if not isinstance(cur, VObj):
                return []
            cur = cur.fields[p]
        last = parts[-1]
        if isinstance(cur, VOpt):
            cur = cur.val
        if not isinstance(cur, VObj):
            return []          # e.g. an opaque/None argument: nothing to modify
        if last == '*':
            return [(cur, f) for f in cur.fields if not isinstance(cur.fields[f], (VObj, VLock))]
        if last == '**':
            out = []
            stack = [cur]
            seen = set()
            while stack:
                o = stack.pop()
                if id(o) in seen:
                    continue
                seen.add(id(o))
                for f, v in o.fields.items():
                    if isinstance(v, VObj):
                        stack.append(v)
                    elif not isinstance(v, VLock):
                        out.append((o, f))
            return out
        if last not in cur.fields:
            raise Unsupported('modifies: %s has no field %s' % (cur.cls, last))
        return [(cur, last)]

    def havoc_locs(self, locs, label='h'):
        for o, f in locs:
            v = o.fields[f]
            if isinstance(v, VObj):
                continue
            o.fields[f] = self.refresh_like(v, '%s.%s' % (o.name.split('#')[0], f))

    # ------------------------------------------------------------------------------------------
    # clause evaluation

    def eval_clause(self, clause, scope):
        """Evaluate a contract clause to a z3 Bool in spec mode under `scope` (dict of names)."""
        saved_env, saved_mode = self.env, self.mode
        self.env = scope
        self.mode = 'spec'
        try:
            v = self.eval(clause.tree)
        finally:
            self.env, self.mode = saved_env, saved_mode
        return truth(v)

    def eval_clause_value(self, text, scope):
        saved_env, saved_mode = self.env, self.mode
        self.env, self.mode = scope, 'spec'
        try:
            return self.eval(ast.parse(text.strip(), mode='eval').body)
        finally:
            self.env, self.mode = saved_env, saved_mode

    def props_of(self, clause, contract):
        return clause.props if clause.props is not None else set(contract.props)

    # ------------------------------------------------------------------------------------------
    # verifying one function

    def verify(self, contract, variant, only_props=None):
        """Explore all paths of the real function of `contract` (for self.twin); returns obligations."""
        self.only_props = set(only_props) if only_props else None
        ref = contract.real[self.twin]
        module, fn = self.sources.function(ref)
        self.cur_module = module
        self.contract = contract
        vname = ','.join('%s=%s' % kv for kv in sorted(variant.items()) if not kv[0].startswith('__'))
        self.current_name = '%s[%s]%s' % (contract.key, self.twin, ('{%s}' % vname) if vname else '')
        self.obligs = []
        self.work = [[]]
        self.fn_node = fn
        self.top_fn_node = fn
        self.check_signature(contract, fn)
        is_gen = any(isinstance(n, (ast.Yield, ast.YieldFrom)) for n in ast.walk(fn))
        if (contract.gen is not None) != is_gen:
            raise Unsupported('%s is %sa generator but its contract says the opposite: the guard / effects would run at a different time'
                              % (contract.key, '' if is_gen else 'not '))
        from . import roles
        self.local_aliases = roles.aliases(contract.key, self.twin, fn)      # contract's name for a local -> its current name
        while self.work:
            prefix = self.work.pop()
            self.reset_path(prefix)
            self.stats['paths'] += 1
            if self.stats['paths'] > 4000:
                raise Unsupported('path explosion in %s' % self.current_name)
            try:
                self.run_once(contract, variant, module, fn)
            except PathEnd:
                pass
        return self.obligs

    def check_signature(self, contract, fn):
        names = [a.arg for a in fn.args.args]
        declared = list(contract.params.keys())
        if names != declared:
            raise Unsupported('signature of %s changed: source has %r, contract has %r' % (contract.key, names, declared))

    def param_defaults(self, fn):
        args = fn.args.args
        defaults = fn.args.defaults
        out = {}
        for a, d in zip(args[len(args) - len(defaults):], defaults):
            out[a.arg] = d
        return out

    def setup_entry(self, contract, variant):
        self.env = {}
        self.G = VObj('G', name='G')
        for g, (t, _) in dsl.GHOST.items():
            self.G.fields[g] = self.fresh(t, 'G.' + g)
        self.world.ghost_invariant(self, self.G)
        params = {}
        for p, t in contract.params.items():
            t = variant.get(p, t)
            params[p] = self.fresh(t, p)
        for k, t in variant.items():
            if '.' in k and not k.startswith('__'):
                root, fld = k.split('.', 1)
                params[root].fields[fld] = self.fresh(t, k)
        return params

    def run_once(self, contract, variant, module, fn):
        params = self.setup_entry(contract, variant)
        self.env = dict(params)
        self.entry_params = dict(params)
        self.ghost_locals = {}
        for gname, gtype in contract.ghost_locals.items():
            self.ghost_locals[gname] = self.fresh(gtype, gname)
        # assume requires
        scope = self.spec_scope(params, None, None)
        for c in contract.requires:
            self.assume(self.eval_clause(c, scope))
        self.old_snap = self.snapshot()
        self.old_env = dict(params)
        self.yield_index = VInt(0)
        self.is_generator = contract.gen is not None
        self.cover('entry', contract)
        try:
            try:
                self.exec_block(fn.body)
                result = NONE
            except ReturnSig as r:
                result = r.value
        except RaiseSig as r:
            self.check_exceptional_post(contract, r.exc)
            return
        self.check_post(contract, result)

    def record_trace(self, end):
        """The call skeleton of the finished path: callees under contract in call order with their outcome kind, then how the path
        ended.  Used relationally (C16): the two twins must have the same set of skeletons."""
        ev = []
        for e in self.trace:
            out = e.get('outcome')
            ev.append((e['callee'], 'pending' if out is None else (out[0] if out[0] == 'return' else 'raise:%s' % out[1])))
        key = (tuple(ev), end)
        self.path_traces.add(key)
        if os.environ.get('PYVC_SKELETON_PC') and key not in self.path_trace_pcs:
            self.path_trace_pcs[key] = list(self.pc)

    def cover(self, label, contract):
        if self.emitting():
            self.covers.append(('%s/cover[%s]' % (self.current_name, label), list(self.pc), set(contract.props)))

    def spec_scope(self, params, result, exc):
        scope = dict(params)
        scope.update(self.ghost_locals)
        scope['G'] = self.G
        if result is not None:
            scope['result'] = result
        if exc is not None:
            scope['exc'] = exc
        scope['_yi'] = getattr(self, 'yield_index', VInt(0))
        scope['_n'] = scope['_yi']
        return scope

    def bind_lets(self, contract, scope):
        for name, text in contract.lets:
            scope[name] = self.eval_clause_value(text, scope)

    def check_post(self, contract, result):
        scope = self.spec_scope(self.entry_params, result, None)
        if contract.returns is not None and isinstance(contract.returns, str):
            self.check_result_type(contract, result)
        for target, expr in contract.ghost_exit:
            # ghost statement at the normal exit (history variables): G.<field> := expr
            v = self.eval_clause_value(expr, scope)
            self.G.fields[target.split('.', 1)[1]] = v
        self.bind_lets(contract, scope)
        for c in contract.defines:
            # a definitional binding names the value just returned in the ghost log; it must never exclude an exit.  A binding that is
            # ill-kinded for this result (None against a value, tuples of different length) would silently make the path vacuous.
            self.in_define = True
            try:
                f = self.eval_clause(c, scope)
            finally:
                self.in_define = False
            if z3.is_false(z3.simplify(f)):
                self.oblige('result-shape-fits-the-definitional-binding', z3.BoolVal(False), set(contract.props), 'post',
                            expr='%s (result %s)' % (c.expr, self.describe(result)), meta={'result': self.describe(result)})
                continue
            self.assume(f)
        self.cur_node = self.fn_node
        for c in contract.ensures:
            f = self.eval_clause(c, scope)
            self.oblige(c.label, f, self.props_of(c, contract), 'post', expr=c.expr, meta={'result': self.describe(result)})
        self.check_frame(contract, 'frame')
        self.check_init_establishes(contract)
        self.record_trace('return')
        self.cover('normal-exit', contract)

    def check_init_establishes(self, contract):
        """The class declaration is an invariant every other contract assumes at entry (a `lock:` field is a lock, an `int` field an int):
        the constructor has to establish it."""
        if not contract.key.endswith('.__init__'):
            return
        o = self.entry_params.get('self')
        if not isinstance(o, VObj):
            return
        decl = dsl.CLASSES.get(o.cls)
        if decl is None:
            return
        for f, typ in decl.fields.items():
            if not typ.startswith('lock:'):
                continue             # value kinds of the other fields are stated loosely in the declarations; locks are crisp
            v = o.fields.get(f)
            ok = v is not None and self.world.type_matches(v, typ)
            if not ok:
                self.oblige('init-establishes[%s.%s: %s]' % (o.cls, f, typ), z3.BoolVal(False), set(contract.props), 'post',
                            expr='%s.__init__ leaves %s of the declared kind %s (got %r)' % (o.cls, f, typ, v))

    def check_result_type(self, contract, result):
        want = contract.returns
        ok = self.world.type_matches(result, want)
        if not ok:
            self.oblige('result-type', z3.BoolVal(False), set(contract.props), 'post',
                        expr='result has declared type %s (got %r)' % (want, result))

    def check_exceptional_post(self, contract, exc):
        self.cur_node = self.fn_node
        clauses = None
        for cls, cl in contract.raises.items():
            if cls == exc.cls or (cls.endswith('+') and exc_is_subclass(exc.cls, cls[:-1])):
                clauses = cl
                break
        if clauses is None and '*' in contract.raises and (exc.cls == 'AnyError' or getattr(exc, 'refined_from_any', False)):
            # '*' stands for the arbitrary exception an abstract callee (transport, user callback) may raise -- not for concrete classes
            # (an arbitrary exception that a handler identified as some class and re-raised is still that arbitrary exception)
            clauses = contract.raises['*']
            exc.cls = 'AnyError'
        if clauses is None:
            self.oblige('no-escape[%s]' % exc.cls, z3.BoolVal(False), set(contract.escape_props or contract.props), 'exc',
                        expr='exception %s must not escape %s (not in its raises clause)' % (exc.cls, contract.key),
                        meta={'exc': exc.cls})
            return
        scope = self.spec_scope(self.entry_params, None, exc)
        self.bind_lets(contract, scope)
        for c in clauses:
            f = self.eval_clause(c, scope)
            self.oblige(c.label, f, self.props_of(c, contract), 'exc', expr=c.expr, meta={'exc': exc.cls})
        self.check_frame(contract, 'frame[%s]' % exc.cls)
        self.record_trace('raise:%s' % exc.cls)
        self.cover('raise[%s]' % exc.cls, contract)

    def check_frame(self, contract, label):
        """Everything not in `modifies` is unchanged (objects reachable from the parameters, and G)."""
        roots = dict(self.entry_params)
        allowed = set()
        for m in contract.modifies:
            with Executor._Old(self, self.old_snap):
                locs = self.resolve_path(m, roots)
            for o, f in locs:
                allowed.add((id(o), f))
            if m.endswith('.*') and m.count('.') == 1 and m.split('.')[0] in roots and isinstance(roots[m.split('.')[0]], VObj):
                o = roots[m.split('.')[0]]
                for f in list(o.fields) + list(self.old_snap.get(id(o), (o, {}))[1]):
                    allowed.add((id(o), f))
        for oid, (o, oldf) in self.old_snap.items():
            for f, ov in oldf.items():
                nv = o.fields.get(f)
                if nv is ov or (id(o), f) in allowed:
                    continue
                if o is self.G and f == 'broken' and label.startswith('frame['):
                    continue          # an operation that raises may leave the session broken; only normal returns and loop back-edges may not
                if isinstance(ov, (VObj, VLock)):
                    if nv is not ov:
                        self.oblige('%s/%s.%s' % (label, o.name, f), z3.BoolVal(False), set(contract.props), 'frame',
                                    expr='%s.%s is not reassigned' % (o.name, f))
                    continue
                try:
                    same = veq(nv, ov)
                except Unsupported:
                    same = z3.BoolVal(False)
                self.oblige('%s/%s.%s' % (label, o.name, f), same, set(contract.props), 'frame',
                            expr='%s.%s unchanged (not in modifies)' % (o.name, f))

    def describe(self, v):
        try:
            return repr(v)[:200]
        except Exception:    # noqa
            return '?'

    # ------------------------------------------------------------------------------------------
    # statements

    def exec_block(self, stmts):
        for st in stmts:
            self.exec_stmt(st)

    def exec_stmt(self, st):
        self.cur_node = st
        m = getattr(self, 'st_' + type(st).__name__, None)
        if m is None:
            raise Unsupported('statement %s at %s' % (type(st).__name__, self.where()))
        return m(st)

    def st_Pass(self, st):
        pass

    def st_Expr(self, st):
        if isinstance(st.value, ast.Constant):
            return                 # docstring
        if isinstance(st.value, ast.Yield):
            self.trace.append({'callee': '<yield>', 'site': self.where(), 'args': {}, 'outcome': ('return', None)})
            return self.do_yield(self.eval(st.value.value) if st.value.value else NONE)
        if isinstance(st.value, ast.YieldFrom):
            return self.do_yield_from(st.value.value)
        self.eval(st.value)

    def st_Return(self, st):
        v = self.eval(st.value) if st.value is not None else NONE
        if self.contract.at_return and getattr(self, 'inline_depth', 0) == 0:
            rets = [n for n in ast.walk(self.fn_node) if isinstance(n, ast.Return)]
            rets.sort(key=lambda n: (n.lineno, n.col_offset))
            k = [i for i, n in enumerate(rets) if n is st]
            if k and k[0] in self.contract.at_return:
                scope = self.inv_scope(None, None)
                scope['result'] = v
                for c in self.contract.at_return[k[0]]:
                    self.oblige('return%d/%s' % (k[0], c.label), self.eval_clause(c, scope), self.props_of(c, self.contract), 'at-return', expr=c.expr)
        raise ReturnSig(v)

    def st_Break(self, st):
        raise BreakSig()

    def st_Continue(self, st):
        raise ContinueSig()

    def st_Global(self, st):
        raise Unsupported('global statement')

    def st_Assert(self, st):
        v = self.eval(st.test)
        if not self.branch(truth(v)):
            raise RaiseSig(VExc('AssertionError'))

    def st_Assign(self, st):
        v = self.eval(st.value)
        for t in st.targets:
            self.assign(t, v)

    def write_only_target(self, target):
        """`obj.attr` where attr is not part of the declared state and is never READ anywhere in its module (only assigned / augmented):
        a counter kept for debugging.  Such a write cannot influence anything the contracts talk about and is skipped (A-WRITEONLY)."""
        if not isinstance(target, ast.Attribute):
            return False
        try:
            o = self.eval_pure(target.value)
        except (Unsupported, KeyError):
            return False
        if isinstance(o, VOpt):
            o = o.val
        if not isinstance(o, VObj) or target.attr in o.fields:
            return False
        decl = dsl.CLASSES.get(o.cls)
        if decl is None or target.attr in decl.fields or not decl.real.get(self.twin):
            return False
        return self.world.attr_is_write_only(decl.real[self.twin], target.attr)

    def st_AugAssign(self, st):
        if self.write_only_target(st.target):
            self.eval(st.value)              # the right-hand side is still evaluated (it may raise)
            self.world.use('write-only attribute')
            return
        cur = self.eval(self.load_of(st.target))
        rhs = self.eval(st.value)
        v = self.binop(st.op, cur, rhs, st, aug=True)
        self.assign(st.target, v)

    def load_of(self, target):
        t = ast.copy_location(type(target)(**{f: getattr(target, f) for f in target._fields}), target)
        t.ctx = ast.Load()
        return t

    def assign(self, target, v):
        if isinstance(target, ast.Name):
            self.env[target.id] = v
        elif isinstance(target, (ast.Tuple, ast.List)):
            items = self.unpack_value(v, len(target.elts))
            for t, x in zip(target.elts, items):
                self.assign(t, x)
        elif isinstance(target, ast.Attribute):
            o = self.eval(target.value)
            if isinstance(o, VOpt):
                o = self.nonnull(o, 'attribute store')
            if not isinstance(o, VObj):
                raise Unsupported('attribute store on %r' % (o,))
            decl = dsl.CLASSES.get(o.cls)
            if target.attr not in o.fields and self.write_only_target(target):
                self.world.use('write-only attribute')
                return
            if target.attr not in o.fields:
                if decl is not None and target.attr not in decl.fields and not getattr(self, 'in_init', False):
                    # an attribute that is not part of the declared state of the class: the contracts cannot speak about it.
                    # That is not evidence of a violation -- the function is undecided until the class declaration is extended.
                    raise Unsupported('%s.%s is written but is not part of the declared state of %s (stale class declaration)'
                                      % (o.cls, target.attr, o.cls))
            self.world.check_plain_field(self, o, target.attr)
            self.world.on_field_write(self, o, target.attr, v)
            self.world.guarded_access(self, o, target.attr, target)
            o.fields[target.attr] = v
        elif isinstance(target, ast.Subscript):
            self.assign_subscript(target, v)
        else:
            raise Unsupported('assignment target %s' % type(target).__name__)

    def unpack_value(self, v, n):
        if isinstance(v, VOpt):
            v = self.nonnull(v, 'unpack')
        if isinstance(v, (VTuple, VList)):
            if len(v.items) != n:
                raise RaiseSig(VExc('ValueError'))
            return v.items
        raise Unsupported('cannot unpack %r' % (v,))

    def assign_subscript(self, target, v):
        base = self.eval(target.value)
        if isinstance(base, VBytes) and base.ba and isinstance(target.slice, ast.Slice):
            lo, hi = self.slice_bounds(target.slice, base)
            if not isinstance(v, VBytes):
                raise Unsupported('slice assignment of %r' % (v,))
            n = z3.Length(base.term)
            hi2 = z3.If(hi < lo, lo, hi)
            new = z3.Concat(z3.SubSeq(base.term, 0, lo), v.term, z3.SubSeq(base.term, hi2, n - hi2))
            self.assign(target.value, VBytes(new, True))
            return
        h = self.world.subscript_store(self, base, target, v)
        if h is NotImplemented:
            raise Unsupported('subscript store on %r at %s' % (base, self.where()))

    def st_Delete(self, st):
        for t in st.targets:
            if isinstance(t, ast.Subscript):
                base = self.eval(t.value)
                if isinstance(base, VBytes) and isinstance(t.slice, ast.Slice) and t.slice.step is None:
                    if not base.ba:
                        raise RaiseSig(VExc('TypeError'))          # bytes does not support item deletion
                    # del b[lo:hi]  ==  b[lo:hi] = b''
                    lo, hi = self.slice_bounds(t.slice, base)
                    n = z3.Length(base.term)
                    hi2 = z3.If(hi < lo, lo, hi)
                    if self.cheap_entails(lo == 0):
                        new = self.slice_term(base.term, hi2, n)
                    else:
                        new = self.concat_terms([self.slice_term(base.term, z3.IntVal(0), lo), self.slice_term(base.term, hi2, n)])
                    self.assign(t.value, VBytes(new, True))
                    continue
                if self.world.subscript_delete(self, base, t) is NotImplemented:
                    raise Unsupported('del on %r' % (base,))
            else:
                raise Unsupported('del target')

    def st_If(self, st):
        c = truth(self.eval(st.test))
        if self.branch(c):
            self.narrow(st.test, True)
            self.exec_block(st.body)
        else:
            self.narrow(st.test, False)
            self.exec_block(st.orelse)

    def narrow(self, test, taken):
        """Flow typing of Optionals: after `if x:` / `if x is not None:` / `if not x: raise`, x is its value."""
        if isinstance(test, ast.UnaryOp) and isinstance(test.op, ast.Not):
            return self.narrow(test.operand, not taken)
        if isinstance(test, ast.BoolOp):
            if (isinstance(test.op, ast.And) and taken) or (isinstance(test.op, ast.Or) and not taken):
                for v in test.values:
                    self.narrow(v, taken)
            return
        if isinstance(test, ast.Name) and test.id in self.env:
            v = self.env[test.id]
            if isinstance(v, VOpt) and taken:
                self.env[test.id] = v.val
            return
        if isinstance(test, ast.Compare) and len(test.ops) == 1 and isinstance(test.left, ast.Name) and test.left.id in self.env \
                and isinstance(test.comparators[0], ast.Constant) and test.comparators[0].value is None:
            v = self.env[test.left.id]
            if not isinstance(v, VOpt):
                return
            is_none = isinstance(test.ops[0], ast.Is) == taken if isinstance(test.ops[0], (ast.Is, ast.IsNot)) else None
            if is_none is True:
                self.env[test.left.id] = NONE
            elif is_none is False:
                self.env[test.left.id] = v.val

    def st_Raise(self, st):
        if st.exc is None:
            exc = getattr(self, 'handling', None)
            if exc is None:
                raise Unsupported('bare raise outside handler')
            raise RaiseSig(exc)
        raise RaiseSig(self.eval_exception(st.exc))

    def eval_exception(self, node):
        """`raise X(args)`: the class, and the first argument as payload where it evaluates (A-MSG)."""
        if isinstance(node, ast.Call):
            cls = self.eval(node.func)
            if not isinstance(cls, VClass):
                raise Unsupported('raise of %r' % (cls,))
            payload = None
            if node.args:
                payload = self.eval_message(node.args[0])
            return VExc(self.world.exc_name(cls), payload)
        v = self.eval(node)
        if isinstance(v, VClass):
            return VExc(self.world.exc_name(v))
        if isinstance(v, VExc):
            return v
        raise Unsupported('raise of %r' % (v,))

    def eval_message(self, node):
        """A-MSG: building an error message does not raise and has no effect; the message value is kept where the
        subset can express it (names, attributes, str.format of those) and opaque otherwise."""
        self.eval_property_reads(node)
        try:
            saved = (list(self.pc), list(self.decisions), list(self.work), len(self.obligs))
            if isinstance(node, (ast.Name, ast.Attribute)):
                return self.eval(node)
            if isinstance(node, ast.Call) and isinstance(node.func, ast.Attribute) and node.func.attr == 'format' \
                    and isinstance(node.func.value, ast.Constant) and len(node.args) == 1 and isinstance(node.args[0], ast.Name):
                inner = self.eval(node.args[0])
                return VTuple([VStr(node.func.value.value), inner])
            return None
        except (Unsupported, RaiseSig):
            self.pc, self.decisions, self.work = saved[0], saved[1], saved[2]
            del self.obligs[saved[3]:]
            return None

    def eval_property_reads(self, node):
        """Side condition of A-MSG / A-LOG: an expression that is otherwise dropped (error message, logger argument) may read a
        *property* of `self`; that runs repository code, which can raise.  Every such read is executed like any other property read,
        so an exception escaping from it is an exit of the enclosing function.  Where the property's body leaves the encoded subset
        the read falls back to the assumption (no raise, no effect)."""
        if self.mode != 'code':
            return
        for n in ast.walk(node):
            if not (isinstance(n, ast.Attribute) and isinstance(n.ctx, ast.Load) and isinstance(n.value, ast.Name) and n.value.id in self.env):
                continue
            base = self.env[n.value.id]
            if not isinstance(base, VObj) or n.attr in base.fields or not self.world.is_property(base, n.attr):
                continue
            saved = (list(self.pc), list(self.decisions), list(self.work), len(self.obligs))
            try:
                self.eval(n)
            except Unsupported as e:
                if os.environ.get('PYVC_DEBUG_MSG'):
                    sys.stderr.write('message property %s: %s\n' % (n.attr, e))
                self.pc, self.decisions, self.work = saved[0], saved[1], saved[2]
                del self.obligs[saved[3]:]
                self.world.use('message-property-opaque')

    def st_Try(self, st):
        try:
            try:
                self.exec_block(st.body)
            except RaiseSig as r:
                handled = False
                for h in st.handlers:
                    if self.handler_matches(h, r.exc):
                        handled = True
                        if h.name:
                            self.env[h.name] = r.exc
                        saved = getattr(self, 'handling', None)
                        self.handling = r.exc
                        try:
                            self.exec_block(h.body)
                        finally:
                            self.handling = saved
                        break
                if not handled:
                    raise
            else:
                self.exec_block(st.orelse)
        except (RaiseSig, ReturnSig, BreakSig, ContinueSig):
            if st.finalbody:
                self.exec_block(st.finalbody)       # an exception raised here replaces the pending one (as in CPython)
            raise
        else:
            if st.finalbody:
                self.exec_block(st.finalbody)

    def handler_matches(self, h, exc):
        if h.type is None:
            return True
        names = []
        nodes = h.type.elts if isinstance(h.type, ast.Tuple) else [h.type]
        for n in nodes:
            v = self.eval(n)
            if not isinstance(v, VClass):
                raise Unsupported('except clause %r' % (v,))
            names.append(self.world.exc_name(v))
        if any(exc_is_subclass(exc.cls, p) for p in names):
            return True
        if exc.cls == 'AnyError':
            # "any exception" of an abstract callee may well be one of the classes this handler names
            if self.choose('AnyError-is-%s' % names[0]):
                exc.cls = names[0]
                exc.refined_from_any = True
                return True
        return False

    def st_With(self, st):
        if len(st.items) != 1:
            raise Unsupported('with: several items')
        item = st.items[0]
        ctx = self.eval_with_context(item.context_expr)
        if isinstance(ctx, VLock):
            self.world.lock_acquire(self, ctx)
            try:
                self.exec_block(st.body)
            finally:
                self.world.lock_release(self, ctx)
            return
        enter, exit_ = self.world.context_manager(self, ctx, item.context_expr)
        val = enter()
        if item.optional_vars is not None:
            self.assign(item.optional_vars, val)
        try:
            self.exec_block(st.body)
        except RaiseSig:
            exit_(True)
            raise
        except (ReturnSig, BreakSig, ContinueSig):
            exit_(False)
            raise
        else:
            exit_(False)

    def eval_with_context(self, node):
        return self.eval(node)

    # ---- loops -----------------------------------------------------------------------------

    def loop_ordinal(self, node):
        loops = [n for n in ast.walk(self.top_fn_node) if isinstance(n, (ast.While, ast.For))]
        loops.sort(key=lambda n: (n.lineno, n.col_offset))
        for i, n in enumerate(loops):
            if n is node:
                return i
        return self.inline_loop_ordinal(node)

    def inline_loop_ordinal(self, node):
        return getattr(node, '_pyvc_ordinal', None)

    def st_While(self, st):
        self.cut_loop(st, kind='while')

    def st_For(self, st):
        it = self.eval_iter(st.iter)
        if isinstance(it, VOpt):
            it = self.nonnull(it, 'iteration')
        if isinstance(it, VNone):
            raise RaiseSig(VExc('TypeError'))
        if isinstance(it, (VList, VTuple)):
            # literal of known length: unrolled (complete)
            for x in it.items:
                self.assign(st.target, x)
                try:
                    self.exec_block(st.body)
                except BreakSig:
                    return
                except ContinueSig:
                    continue
            self.exec_block(st.orelse)
            return
        if isinstance(it, VGen):
            return self.world.for_over_generator(self, st, it)
        if isinstance(it, VSeq):
            return self.cut_loop(st, kind='for', seq=it)
        raise Unsupported('for over %r at %s' % (it, self.where()))

    def eval_iter(self, node):
        if isinstance(node, ast.Call) and isinstance(node.func, ast.Name) and node.func.id == 'zip' and 'zip' not in self.env:
            seqs = [self.eval(a) for a in node.args]
            if all(isinstance(s, VSeq) for s in seqs):
                # zip of lists whose lengths the contract must relate; length = min
                length = seqs[0].length
                for s in seqs[1:]:
                    length = z3.If(s.length < length, s.length, length)
                return VSeq(length, lambda i, ss=seqs: VTuple([s.elem(i) for s in ss]), 'zip', None)
            if all(isinstance(s, (VList, VTuple)) for s in seqs):
                n = min(len(s.items) for s in seqs)
                return VList([VTuple([s.items[i] for s in seqs]) for i in range(n)])
            raise Unsupported('zip of %r' % (seqs,))
        return self.eval(node)

    def collect_writes(self, body_nodes):
        names, attr_targets, calls = set(), [], []
        for root in body_nodes:
            for n in ast.walk(root):
                if isinstance(n, ast.Name) and isinstance(n.ctx, ast.Store):
                    names.add(n.id)
                elif isinstance(n, ast.Attribute) and isinstance(n.ctx, ast.Store):
                    attr_targets.append(n)
                elif isinstance(n, ast.Subscript) and isinstance(n.ctx, ast.Store):
                    base = n.value
                    if isinstance(base, ast.Name):
                        names.add(base.id)
                    elif isinstance(base, ast.Attribute):
                        attr_targets.append(base)
                elif isinstance(n, ast.AugAssign):
                    t = n.target
                    if isinstance(t, ast.Name):
                        names.add(t.id)
                    elif isinstance(t, ast.Attribute):
                        attr_targets.append(t)
                elif isinstance(n, ast.Call):
                    calls.append(n)
                    if isinstance(n.func, ast.Attribute) and n.func.attr in ('append', 'extend') and isinstance(n.func.value, ast.Name):
                        names.add(n.func.value.id)
                elif isinstance(n, ast.ExceptHandler) and n.name:
                    names.add(n.name)
        return names, attr_targets, calls

    def loop_havoc(self, st, spec, seq=None):
        names, attr_targets, calls = self.collect_writes(st.body + ([st.target] if isinstance(st, ast.For) else []))
        if seq is not None:
            # the loop variable holds *some* element: make it resolvable for the static write set
            self.assign(st.target, seq.elem(z3.Int(self.fresh_name('_any'))))
        locs = []
        for a in attr_targets:
            try:
                o = self.eval_pure(a.value)
            except Unsupported:
                raise Unsupported('loop write target too complex at line %s' % a.lineno)
            if isinstance(o, VOpt):
                o = o.val
            if isinstance(o, VObj) and a.attr in o.fields:
                locs.append((o, a.attr))
        for c in calls:
            locs.extend(self.call_write_set(c))
        for m in spec.modifies:
            locs.extend(self.resolve_path(m, self.env))
        if self.is_generator and any(isinstance(n, (ast.Yield, ast.YieldFrom)) for b in st.body for n in ast.walk(b)):
            for m in self.contract.yield_havoc:
                locs.extend(self.resolve_path(m, self.env))
            self.yield_index = VInt(z3.Int(self.fresh_name('_yi')))
            self.assume(self.yield_index.term >= 0)
        # locals
        rev = {cur: name for name, cur in getattr(self, 'local_aliases', {}).items()}
        for n in sorted(names):
            if rev.get(n, n) in self.contract.locals_types:
                self.env[n] = self.fresh(self.contract.locals_types[rev.get(n, n)], n)
            elif n in self.env:
                v = self.env[n]
                if isinstance(v, (VObj, VLock, VClass, VFunc, VModule)):
                    continue
                if isinstance(v, VNone):
                    raise Unsupported('local %r is None at the head of a loop that assigns it: declare its type under `locals` in the contract' % n)
                try:
                    self.env[n] = self.refresh_like(v, n)
                except Unsupported:
                    del self.env[n]
        # an inlined generator: the consumer's loop body runs inside this loop, in the consumer's environment
        for hook, cst, cenv in getattr(self, 'yield_hooks', [])[-1:]:
            names2, attrs2, calls2 = self.collect_writes(cst.body + [cst.target])
            saved_env = self.env
            self.env = cenv
            try:
                for a in attrs2:
                    o = self.eval_pure(a.value)
                    if isinstance(o, VOpt):
                        o = o.val
                    if isinstance(o, VObj) and a.attr in o.fields:
                        locs.append((o, a.attr))
                for c in calls2:
                    locs.extend(self.call_write_set(c))
                for n in sorted(names2):
                    if rev.get(n, n) in self.contract.locals_types:
                        cenv[n] = self.fresh(self.contract.locals_types[rev.get(n, n)], n)
                    elif n in cenv:
                        v = cenv[n]
                        if isinstance(v, (VObj, VLock, VClass, VFunc, VModule)):
                            continue
                        if isinstance(v, VNone):
                            raise Unsupported('local %r is None at the head of a loop that assigns it: declare its type under `locals`' % n)
                        try:
                            cenv[n] = self.refresh_like(v, n)
                        except Unsupported:
                            del cenv[n]
            finally:
                self.env = saved_env
        uniq = {}
        for o, f in locs:
            uniq[(id(o), f)] = (o, f)
        self.havoc_locs(uniq.values())
        self.loop_fresh = (set(names), set(uniq.keys()))

    def call_write_set(self, call, depth=0):
        """Static write set of a call inside a loop body: the callee contract's modifies mapped through the arguments;
        for an un-contracted helper of the package, the write set of its body.  Anything that cannot be resolved
        statically stops the run (UNDECIDED) -- a silently empty write set would make the loop cut unsound."""
        kind, contract, recv, extra = self.resolve_callee_static(call.func)
        if kind == 'pure':
            return []
        if kind == 'ghost':
            return [(self.G, f) for f in extra]
        if kind == 'alternatives':
            locs = []
            for alt in extra:
                fake = ast.Call(func=alt, args=call.args, keywords=call.keywords)
                ast.copy_location(fake, call)
                locs.extend(self.call_write_set(fake, depth + 1))
            return locs
        if kind == 'inline':
            module, fnode = extra
            if depth > 4:
                raise Unsupported('write set: inlining too deep at line %s' % call.lineno)
            bound = {}
            pnames = [a.arg for a in fnode.args.args]
            if recv is not None and pnames and pnames[0] in ('self', 'cls'):
                bound[pnames[0]] = recv
                pnames = pnames[1:]
            for p, a in zip(pnames, call.args):
                try:
                    bound[p] = self.eval_pure(a)
                except Unsupported:
                    pass
            for kw in call.keywords:
                if kw.arg:
                    try:
                        bound[kw.arg] = self.eval_pure(kw.value)
                    except Unsupported:
                        pass
            saved = (self.env, self.cur_module)
            self.env, self.cur_module = bound, module
            try:
                names, attr_targets, calls = self.collect_writes(fnode.body)
                locs = []
                for a in attr_targets:
                    o = self.eval_pure(a.value)
                    if isinstance(o, VOpt):
                        o = o.val
                    if isinstance(o, VObj) and a.attr in o.fields:
                        locs.append((o, a.attr))
                for c in calls:
                    locs.extend(self.call_write_set(c, depth + 1))
                return locs
            finally:
                self.env, self.cur_module = saved
        roots = {}
        pnames = list(contract.params.keys())
        args = list(call.args)
        if pnames and pnames[0] in ('self', 'cls'):
            if recv is not None:
                roots[pnames[0]] = recv
            pnames = pnames[1:]
        for p, a in zip(pnames, args):
            try:
                roots[p] = self.eval_pure(a)
            except Unsupported:
                pass
        for kw in call.keywords:
            if kw.arg:
                try:
                    roots[kw.arg] = self.eval_pure(kw.value)
                except Unsupported:
                    pass
        locs = []
        for m in contract.modifies:
            root = m.split('.')[0]
            if root != 'G' and root not in roots:
                if isinstance(contract.params.get(root, ''), str) and contract.params.get(root, '').startswith('obj:'):
                    arg = self.arg_node_for(contract, call, root)
                    if isinstance(arg, ast.Name) and arg.id not in self.env:
                        continue        # an object created inside the loop body: it does not exist at the loop head
                    raise Unsupported('write set: argument %s of %s is not a simple name (line %s)' % (root, contract.key, call.lineno))
                continue
            locs.extend(self.resolve_path(m, roots))
        return locs

    def arg_node_for(self, contract, call, pname):
        pnames = list(contract.params.keys())
        if pnames and pnames[0] in ('self', 'cls'):
            pnames = pnames[1:]
        for p, a in zip(pnames, call.args):
            if p == pname:
                return a
        for kw in call.keywords:
            if kw.arg == pname:
                return kw.value
        return None

    def eval_pure(self, node):
        """Evaluate a name / attribute chain without side effects (used for static frames)."""
        if isinstance(node, ast.Name):
            if node.id in self.env:
                return self.env[node.id]
            return self.world.resolve_global(self, node.id)
        if isinstance(node, ast.Attribute):
            base = self.eval_pure(node.value)
            if isinstance(base, VOpt):
                base = base.val
            if isinstance(base, VObj) and node.attr in base.fields:
                return base.fields[node.attr]
            if isinstance(base, VModule):
                return self.world.module_attr(self, base, node.attr)
            raise Unsupported('pure eval of attribute')
        if isinstance(node, ast.Constant):
            return self.eval(node)
        if isinstance(node, ast.Subscript) and not isinstance(node.slice, ast.Slice):
            base = self.eval_pure(node.value)
            if isinstance(base, VOpt):
                base = base.val
            idx = self.eval_pure(node.slice)
            if isinstance(base, VSeq) and isinstance(idx, VInt):
                return base.elem(idx.term)
            if isinstance(base, (VTuple, VList)) and isinstance(idx, VInt) and idx.concrete() is not None \
                    and -len(base.items) <= idx.concrete() < len(base.items):
                return base.items[idx.concrete()]
        raise Unsupported('pure eval of %s' % type(node).__name__)

    def resolve_callee_static(self, fnode):
        """-> (kind, contract, receiver, extra): kind in 'pure' | 'contract' | 'inline'.  Raises Unsupported when unknown."""
        if isinstance(fnode, ast.Attribute):
            if isinstance(fnode.value, ast.Call) and isinstance(fnode.value.func, ast.Name) and fnode.value.func.id == 'get_running_loop':
                return ('pure', None, None, None)        # run_in_executor: the wrapped callee is collected as an argument call below
            base = self.eval_pure_or_none(fnode.value)
            if base is None:
                raise Unsupported('write set: receiver of .%s() at line %s cannot be resolved statically' % (fnode.attr, fnode.lineno))
            if isinstance(base, VOpt):
                base = base.val
            if isinstance(base, VObj):
                c = dsl.CONTRACTS.get('%s.%s' % (base.cls, fnode.attr))
                if c is not None and not c.inline:
                    return ('contract', c, base, None)
                d = dsl.CLASSES.get(base.cls)
                if d is not None and d.real.get(self.twin):
                    modshort, clsname = d.real[self.twin].split(':')
                    module = self.sources.module(modshort)
                    fn = self.world.find_method(module, clsname, fnode.attr)
                    if fn is not None:
                        return ('inline', None, base, (fn[1], fn[0]))
                raise Unsupported('write set: %s.%s has neither contract nor source' % (base.cls, fnode.attr))
            if isinstance(base, VOpaque):
                if base.tag == 'logger':
                    return ('pure', None, None, None)
                c = dsl.CONTRACTS.get('%s.%s' % (base.tag, fnode.attr))
                if c is None:
                    raise Unsupported('write set: opaque %s.%s has no contract' % (base.tag, fnode.attr))
                return ('contract', c, base, None)
            if isinstance(base, VModule):
                v = self.world.module_attr(self, base, fnode.attr)
                return self._static_of_value(v, fnode)
            if isinstance(base, VLock) and fnode.attr in ('acquire', 'release'):
                if base.name is None:
                    raise Unsupported('write set: anonymous lock at line %s' % fnode.lineno)
                return ('ghost', None, None, ['held_' + base.name])
            return ('pure', None, None, None)            # methods of bytes / str / tuples / constant dicts / store references
        if isinstance(fnode, ast.Name):
            if fnode.id in self.env:
                return self._static_of_value(self.env[fnode.id], fnode)
            try:
                v = self.world.resolve_global(self, fnode.id)
            except Unsupported:
                # a local bound to a function inside the loop (`opener = f if c else g`): the union over the alternatives
                alts = []
                for n in ast.walk(self.top_fn_node):
                    if isinstance(n, ast.Assign) and len(n.targets) == 1 and isinstance(n.targets[0], ast.Name) and n.targets[0].id == fnode.id:
                        alts.extend([n.value.body, n.value.orelse] if isinstance(n.value, ast.IfExp) else [n.value])
                if not alts or any(isinstance(a, ast.Name) and a.id == fnode.id for a in alts):
                    raise
                return ('alternatives', None, None, alts)
            return self._static_of_value(v, fnode)
        if isinstance(fnode, ast.IfExp):
            return ('alternatives', None, None, [fnode.body, fnode.orelse])
        raise Unsupported('write set: callee expression at line %s' % getattr(fnode, 'lineno', '?'))

    def _static_of_value(self, v, fnode):
        if isinstance(v, VOpt):
            v = v.val
        if isinstance(v, VOpaque):
            c = dsl.CONTRACTS.get('%s.__call__' % v.tag)
            if c is None:
                raise Unsupported('write set: opaque callable %s has no contract' % v.tag)
            return ('contract', c, v, None)
        if isinstance(v, VFunc):
            if v.how == 'lib':
                c = dsl.CONTRACTS.get(v.info[0])
                if c is not None:
                    return ('contract', c, None, None)
                from .world import LIB_WRITES
                if v.info[0] in LIB_WRITES:
                    return ('ghost', None, None, LIB_WRITES[v.info[0]])
                return ('pure', None, None, None)
            if v.how == 'repo':
                c = self.world.contract_for_repo_func(v)
                if c is not None and not c.inline:
                    return ('contract', c, None, None)
                module = self.sources.module(v.info[0])
                return ('inline', None, None, (module, module.funcs[v.info[1]]))
            if v.how == 'method':
                return ('pure', None, None, None)
        if isinstance(v, VClass):
            c = self.world.contract_for_class_init(v)
            if c is not None and not c.inline:
                return ('contract', c, None, None)
            return ('pure', None, None, None)            # constructing a fresh object writes no existing state
        raise Unsupported('write set: cannot classify callee %r' % (v,))

    def eval_pure_or_none(self, node):
        try:
            return self.eval_pure(node)
        except (Unsupported, KeyError):
            return None

    @staticmethod
    def loop_header(st):
        if isinstance(st, ast.While):
            return 'while ' + ast.unparse(st.test)
        return 'for %s in %s' % (ast.unparse(st.target), ast.unparse(st.iter))

    def loop_spec(self, st, ordinal):
        """Invariants are keyed by the loop's header text ('while arg0_arg1', 'for k in keys'), optionally refined by the ordinal
        ((header, ordinal)), or by the bare ordinal: header keys survive edits that reorder, merge or duplicate loops."""
        loops = self.contract.loops
        h = self.loop_header(st)
        for k in ((h, ordinal), h, ordinal):
            if k in loops:
                return loops[k]
        return None

    def broken_unchanged(self):
        """The implicit invariant of every loop and frame of every normal exit: the session was not broken and carried on (see STREAM_FAILURES)."""
        if 'broken' not in self.G.fields:
            return None
        old = self.old_snap.get(id(self.G))
        if old is None or 'broken' not in old[1]:
            return None
        return self.G.fields['broken'].term == old[1]['broken'].term

    def cut_loop(self, st, kind, seq=None):
        ordinal = self.loop_ordinal(st)
        spec = self.loop_spec(st, ordinal)
        if spec is None:
            raise Unsupported('loop %s of %s (line %s) has no invariant in its contract' % (ordinal, self.contract.key, st.lineno))
        tag = 'loop%d' % ordinal
        idx = None
        if kind == 'for':
            idx = VInt(0)
        # 1. invariant on entry
        self.assert_invariant(spec, tag + '/entry', idx, seq)
        b = self.broken_unchanged()
        if b is not None:
            self.oblige(tag + '/entry/no-stream-failure-swallowed', b, {'C12', 'C03'} & set(self.contract.props) or set(self.contract.props), 'loop',
                        expr='no failed read of the device stream was swallowed before this loop')
        # 2. havoc the loop's write set, assume the invariant
        self.loop_havoc(st, spec, seq)
        if b is not None:
            self.G.fields['broken'] = VBool(z3.Bool(self.fresh_name('G.broken')))
            self.assume(self.broken_unchanged())
        if kind == 'for':
            idx = VInt(z3.Int(self.fresh_name('_i')))
            self.assume(z3.And(idx.term >= 0, idx.term <= seq.length))
            self.cur_loop_idx = idx
        self.assume_invariant(spec, idx, seq)
        var0 = None
        if spec.variant is not None:
            var0 = self.eval_spec_expr(spec.variant, idx, seq)
        # 3. guard
        if kind == 'while':
            guard = truth(self.eval(st.test))
        else:
            guard = idx.term < seq.length
        if self.branch(guard):
            if kind == 'for':
                self.assign(st.target, seq.elem(idx.term))
            try:
                self.exec_block(st.body)
            except BreakSig:
                return
            except ContinueSig:
                pass
            nxt = VInt(idx.term + 1) if idx is not None else None
            self.cur_node = st
            self.assert_invariant(spec, tag + '/preserved', nxt, seq)
            b = self.broken_unchanged()
            if b is not None:
                self.oblige(tag + '/preserved/no-stream-failure-swallowed', b, {'C12', 'C03'} & set(self.contract.props) or set(self.contract.props), 'loop',
                            expr='the loop does not go round again after a failed read of the device stream (the cursor may sit inside a packet)')
            if var0 is not None:
                var1 = self.eval_spec_expr(spec.variant, nxt, seq)
                self.oblige(tag + '/variant', z3.And(to_real(var1) < to_real(var0), to_real(var0) >= 0), set(self.contract.props), 'loop',
                            expr='variant decreases and is bounded below: ' + spec.variant)
            self.record_trace('back-edge:%s' % self.loop_header(st))
            raise PathEnd()
        else:
            self.exec_block(st.orelse)

    def inv_scope(self, idx, seq):
        scope = dict(self.env)
        for hook, cst, cenv in getattr(self, 'yield_hooks', [])[-1:]:
            for k, v in self.env.items():
                scope['_g_' + k] = v
            scope.update(cenv)
        scope.update(self.ghost_locals)
        scope['G'] = self.G
        scope['_yi'] = self.yield_index
        if idx is not None:
            scope['_i'] = idx
        for p, v in self.entry_params.items():
            scope['_0' + p] = v            # entry value of a parameter the body reassigns
        for name, cur in getattr(self, 'local_aliases', {}).items():
            if name not in scope and cur in scope:
                scope[name] = scope[cur]   # a renamed local, recognised by its role (pyvc/roles.py)
        return scope

    def assert_invariant(self, spec, label, idx, seq):
        scope = self.inv_scope(idx, seq)
        for c in spec.invariant:
            try:
                f = self.eval_clause(c, scope)
            except KeyError as e:
                raise Unsupported('loop invariant %r refers to %s which does not exist at %s' % (c.expr, e, label))
            self.oblige('%s/%s' % (label, c.label), f, self.props_of(c, self.contract), 'loop', expr=c.expr)

    def assume_invariant(self, spec, idx, seq):
        scope = self.inv_scope(idx, seq)
        fresh_names, fresh_locs = getattr(self, 'loop_fresh', (set(), set()))
        holder = {'result': None}
        done = set()
        state = {'result_seen': True}
        for c in spec.invariant:
            for t in flatten_and(c.tree):
                try:
                    self.assume_or_bind(t, scope, holder, None, fresh_locs, done, state, fresh_names)
                except KeyError as e:
                    raise Unsupported('loop invariant %r refers to %s which does not exist' % (c.expr, e))
        for n, v in holder.get('names', {}).items():
            if n in self.env:
                self.env[n] = v

    def eval_spec_expr(self, text, idx=None, seq=None):
        scope = self.inv_scope(idx, seq)
        saved_env, saved_mode = self.env, self.mode
        self.env, self.mode = scope, 'spec'
        try:
            return self.eval(ast.parse(text, mode='eval').body)
        finally:
            self.env, self.mode = saved_env, saved_mode

    # ---- generators (yield monitor) --------------------------------------------------------------

    def do_yield(self, v):
        hooks = getattr(self, 'yield_hooks', [])
        if hooks:
            return hooks[-1][0](v)
        c = self.contract
        if c.gen is None:
            raise Unsupported('yield in a function whose contract is not a generator contract')
        scope = self.spec_scope(self.entry_params, None, None)
        scope.update({k: x for k, x in self.env.items() if k not in scope})
        scope['value'] = v
        scope['_yi'] = self.yield_index
        for cl in c.on_yield:
            self.oblige(cl.label, self.eval_clause(cl, scope), self.props_of(cl, c), 'yield', expr=cl.expr)
        scope['_i'] = self.yield_index
        for n, text in enumerate(c.gen.get('facts', [])):
            f = truth(self.eval_clause_value(text, scope))
            self.oblige('yield-fact%d' % n, f, set(c.props), 'yield', expr=text)
        self.yield_index = VInt(self.yield_index.term + 1)
        # the consumer runs here: it may let time pass (and whatever the contract lists in yield_havoc)
        locs = []
        for m in c.yield_havoc:
            locs.extend(self.resolve_path(m, self.env))
        self.havoc_locs(locs)
        self.world.after_yield(self)

    def do_yield_from(self, node):
        g = self.eval(node)
        if not isinstance(g, VGen):
            raise Unsupported('yield from %r' % (g,))
        self.world.yield_from(self, g)

    # ------------------------------------------------------------------------------------------
    # expressions

    def eval(self, node):
        m = getattr(self, 'ex_' + type(node).__name__, None)
        if m is None:
            raise Unsupported('expression %s at %s' % (type(node).__name__, self.where()))
        return m(node)

    def ex_Constant(self, node):
        v = node.value
        if v is None:
            return NONE
        if isinstance(v, bool):
            return VBool(v)
        if isinstance(v, int):
            return VInt(v)
        if isinstance(v, float):
            return VReal(v)
        if isinstance(v, bytes):
            return VBytes(v, False)
        if isinstance(v, str):
            return VStr(v)
        raise Unsupported('constant %r' % (v,))

    def ex_Name(self, node):
        if node.id in self.env:
            return self.env[node.id]
        if self.mode == 'spec':
            h = self.world.spec_name(self, node.id)
            if h is not None:
                return h
            from .world import BUILTINS
            if node.id in BUILTINS:
                return VFunc('lib', node.id)
            raise KeyError(node.id)
        return self.world.resolve_global(self, node.id)

    def ex_Tuple(self, node):
        return VTuple([self.eval(e) for e in node.elts])

    def ex_List(self, node):
        return VList([self.eval(e) for e in node.elts])

    def ex_Attribute(self, node):
        base = self.eval(node.value)
        return self.getattr(base, node.attr, node)

    def getattr(self, base, attr, node=None):
        if isinstance(base, VOpt):
            base = self.nonnull(base, 'attribute access .%s' % attr)
        if isinstance(base, VObj):
            if attr in base.fields:
                if self.mode == 'code':
                    self.world.check_plain_field(self, base, attr)
                    self.world.guarded_access(self, base, attr, node)
                return base.fields[attr]
            return self.world.object_attr(self, base, attr)
        if isinstance(base, VModule):
            return self.world.module_attr(self, base, attr)
        if isinstance(base, VExc):
            return self.world.exc_attr(self, base, attr)
        return VFunc('method', base, attr)

    def nonnull(self, v, what):
        """Using an Optional where a value is needed: TypeError/AttributeError in Python -> a raise path."""
        if self.mode == 'spec':
            return v.val
        if self.branch(v.isnone):
            raise RaiseSig(VExc('TypeError', None))
        return v.val

    def ex_UnaryOp(self, node):
        v = self.eval(node.operand)
        if isinstance(node.op, ast.Not):
            return VBool(z3.Not(truth(v)))
        if isinstance(node.op, ast.USub):
            if isinstance(v, VInt):
                return VInt(-v.term)
            if isinstance(v, VReal):
                return VReal(-v.term)
        raise Unsupported('unary op')

    def ex_BoolOp(self, node):
        if self.mode == 'spec':
            vals = []
            for v in node.values:
                t = truth(self.eval(v))
                ts = z3.simplify(t)
                # a concretely decisive operand ends the evaluation: later operands may not even be well-typed (val(None) // 2)
                if isinstance(node.op, ast.And) and z3.is_false(ts):
                    return VBool(False)
                if isinstance(node.op, ast.Or) and z3.is_true(ts):
                    return VBool(True)
                vals.append(t)
            return VBool(z3.And(*vals) if isinstance(node.op, ast.And) else z3.Or(*vals))
        # code mode: Python value semantics with short circuit
        cur = self.eval(node.values[0])
        for nxt in node.values[1:]:
            t = truth(cur)
            if isinstance(node.op, ast.And):
                if self.branch(t):
                    cur = self.eval(nxt)
                else:
                    return cur
            else:
                if self.branch(t):
                    return cur
                cur = self.eval(nxt)
        return cur

    def ex_IfExp(self, node):
        c = truth(self.eval(node.test))
        if self.mode == 'spec':
            return merge(c, self.eval(node.body), self.eval(node.orelse))
        if self.branch(c):
            return self.eval(node.body)
        return self.eval(node.orelse)

    def ex_Compare(self, node):
        left = self.eval(node.left)
        conj = []
        for op, rn in zip(node.ops, node.comparators):
            right = self.eval(rn)
            conj.append(self.compare(op, left, right))
            left = right
        return VBool(conj[0] if len(conj) == 1 else z3.And(*conj))

    def compare(self, op, a, b):
        if isinstance(op, ast.Eq):
            return veq(a, b)
        if isinstance(op, ast.NotEq):
            return z3.Not(veq(a, b))
        if isinstance(op, (ast.Is, ast.IsNot)):
            if isinstance(b, VNone) or isinstance(a, VNone):
                other = a if isinstance(b, VNone) else b
                n, _ = as_opt(other)
                return n if isinstance(op, ast.Is) else z3.Not(n)
            if isinstance(a, (VObj, VClass)) and isinstance(b, (VObj, VClass)):
                r = z3.BoolVal(a is b or (isinstance(a, VClass) and isinstance(b, VClass) and a.name == b.name))
                return r if isinstance(op, ast.Is) else z3.Not(r)
            raise Unsupported('is-comparison of %r and %r' % (a, b))
        if isinstance(op, (ast.In, ast.NotIn)):
            r = self.contains(b, a)
            return r if isinstance(op, ast.In) else z3.Not(r)
        if isinstance(a, VOpt):
            a = self.nonnull(a, 'comparison')
        if isinstance(b, VOpt):
            b = self.nonnull(b, 'comparison')
        if isinstance(a, VNone) or isinstance(b, VNone):
            if self.mode == 'spec':
                raise Unsupported('ordering comparison with None in a contract')
            raise RaiseSig(VExc('TypeError'))
        if isinstance(a, (VInt, VBool)) and isinstance(b, (VInt, VBool)):
            x, y = to_int(a), to_int(b)
        else:
            x, y = to_real(a), to_real(b)
        if isinstance(op, ast.Lt):
            return x < y
        if isinstance(op, ast.LtE):
            return x <= y
        if isinstance(op, ast.Gt):
            return x > y
        if isinstance(op, ast.GtE):
            return x >= y
        raise Unsupported('comparison operator')

    def contains(self, coll, x):
        if isinstance(coll, (VList, VTuple)):
            if not coll.items:
                return z3.BoolVal(False)
            return z3.Or(*[veq(x, y) for y in coll.items])
        if isinstance(coll, VCmdSet):
            if not isinstance(x, VBytes):
                n, inner = as_opt(x)
                if inner is None:
                    return z3.BoolVal(False)
                return z3.And(z3.Not(n), coll.member(inner.term))
            return coll.member(x.term)
        if isinstance(coll, VObj) and self.mode != 'spec':
            # `x in obj` is obj.__contains__(x): through its contract (or its body, executed in place)
            c = dsl.CONTRACTS.get('%s.__contains__' % coll.cls)
            if c is not None:
                return truth(self.world.call_method(self, coll, '__contains__', [x], {}, getattr(self, 'cur_node', None)))
        r = self.world.contains(self, coll, x)
        if r is NotImplemented:
            raise Unsupported('`in` on %r' % (coll,))
        return r

    def ex_BinOp(self, node):
        a = self.eval(node.left)
        b = self.eval(node.right)
        return self.binop(node.op, a, b, node)

    def binop(self, op, a, b, node, aug=False):
        if isinstance(a, VOpt):
            a = self.nonnull(a, 'arithmetic')
        if isinstance(b, VOpt):
            b = self.nonnull(b, 'arithmetic')
        if isinstance(a, VNone) or isinstance(b, VNone):
            if self.mode == 'spec':
                raise Unsupported('arithmetic on None in a contract')
            raise RaiseSig(VExc('TypeError'))
        if isinstance(op, ast.Add):
            if isinstance(a, VBytes) and isinstance(b, VBytes):
                return VBytes(self.concat_terms(a.term, b.term), a.ba)
            if isinstance(a, VStr) and isinstance(b, VStr):
                return VStr(z3.Concat(a.term, b.term))
            if isinstance(a, (VList, VTuple)) and isinstance(b, (VList, VTuple)):
                return type(a)(a.items + b.items)
            if isinstance(a, VCmdSet) or isinstance(b, VCmdSet):
                return self.world.cmdset_union(self, a, b)
            if isinstance(a, (VStr, VBytes)) or isinstance(b, (VStr, VBytes)):
                if self.mode == 'spec':
                    raise Unsupported('mixed concatenation in a contract')
                raise RaiseSig(VExc('TypeError'))
        if isinstance(op, ast.Mod) and isinstance(a, (VBytes, VStr)):
            return self.world.percent_format(self, a, b)
        if isinstance(a, (VInt, VBool)) and isinstance(b, (VInt, VBool)):
            x, y = to_int(a), to_int(b)
            if isinstance(op, ast.Add):
                return VInt(x + y)
            if isinstance(op, ast.Sub):
                return VInt(x - y)
            if isinstance(op, ast.Mult):
                return VInt(x * y)
            if isinstance(op, (ast.FloorDiv, ast.Mod)):
                yc = VInt(y).concrete()
                if yc is None or yc <= 0:
                    if self.mode != 'spec':
                        if self.branch(y == 0):
                            raise RaiseSig(VExc('ZeroDivisionError'))
                        if not self.branch(y > 0):
                            raise Unsupported('division by a possibly negative number at %s' % self.where())
                    # z3 div/mod coincide with Python's floor semantics for positive divisors
                if yc is None:
                    # symbolic divisor: kept abstract (uninterpreted, with its range) so that no non-linear term reaches the solver
                    fn = SF.PYDIV if isinstance(op, ast.FloorDiv) else SF.PYMOD
                    return VInt(fn(x, y))
                return VInt(x / y) if isinstance(op, ast.FloorDiv) else VInt(x % y)
            if isinstance(op, ast.Pow):
                xc, yc = VInt(x).concrete(), VInt(y).concrete()
                if xc is not None and yc is not None and yc >= 0:
                    return VInt(xc ** yc)
                raise Unsupported('symbolic power')
            if isinstance(op, ast.LShift):
                yc = VInt(y).concrete()
                if yc is not None and yc >= 0:
                    return VInt(x * (2 ** yc))
                raise Unsupported('symbolic shift')
            if isinstance(op, ast.RShift):
                yc = VInt(y).concrete()
                if yc is not None and yc >= 0:
                    return VInt(x / (2 ** yc))
                raise Unsupported('symbolic shift')
            if isinstance(op, ast.BitAnd):
                for p, q in ((x, y), (y, x)):
                    qc = VInt(q).concrete()
                    if qc is not None and qc >= 0 and (qc + 1) & qc == 0:
                        # x & (2^k - 1) == x mod 2^k for every Python int x (two's complement of unbounded ints)
                        return VInt(p % (qc + 1))
                for p, q in ((x, y), (y, x)):
                    qc = VInt(q).concrete()
                    if qc is not None and qc > 0 and qc & (qc - 1) == 0:
                        # x & 2^k == ((x div 2^k) mod 2) * 2^k for every Python int x (floor division = arithmetic shift)
                        return VInt(((p / qc) % 2) * qc)
                raise Unsupported('bitwise and with a non-mask at %s' % self.where())
            if isinstance(op, ast.BitXor):
                for p, q in ((x, y), (y, x)):
                    qc = VInt(q).concrete()
                    if qc is not None and qc >= 0 and (qc + 1) & qc == 0:
                        # p ^ (2^k-1) == 2^k-1-p provided 0 <= p < 2^k; otherwise the general 64-bit bit-vector encoding
                        leafwise = map_ite_leaves(z3.simplify(p), lambda c, qc=qc: c ^ qc)
                        if leafwise is not None:
                            return VInt(leafwise)
                        inrange = z3.And(p >= 0, p <= qc)
                        if self.mode == 'spec' or self.entails(inrange):
                            return VInt(qc - p)
                        wide = z3.And(p >= 0, p < 2 ** 64)
                        if not self.entails(wide):
                            raise Unsupported('xor operand not provably within 64 bits at %s' % self.where())
                        return VInt(z3.BV2Int(z3.Int2BV(p, 64) ^ z3.BitVecVal(qc, 64), False))
                raise Unsupported('bitwise xor with a non-mask')
            if isinstance(op, ast.Div):
                return VReal(z3.ToReal(x) / z3.ToReal(y))
        if isinstance(a, (VInt, VReal, VBool)) and isinstance(b, (VInt, VReal, VBool)):
            x, y = to_real(a), to_real(b)
            if isinstance(op, ast.Add):
                return VReal(x + y)
            if isinstance(op, ast.Sub):
                return VReal(x - y)
            if isinstance(op, ast.Mult):
                return VReal(x * y)
            if isinstance(op, ast.Div):
                return VReal(x / y)
        r = self.world.binop(self, op, a, b, node)
        if r is NotImplemented:
            raise Unsupported('binary op %s on %r, %r at %s' % (type(op).__name__, a, b, self.where()))
        return r

    # ---- subscripts ---------------------------------------------------------------------------

    def slice_bounds(self, sl, base):
        """Python's clamping of slice bounds made explicit: -> (lo, hi) z3 Ints with 0 <= lo,hi <= len."""
        if sl.step is not None:
            raise Unsupported('slice step')
        n = z3.Length(base.term)

        def norm(e, default):
            if e is None:
                return default
            v = self.eval(e)
            if isinstance(v, VOpt):
                v = self.nonnull(v, 'slice bound')
            i = z3.simplify(to_int(v))
            nonneg = (z3.is_int_value(i) and i.as_long() >= 0) or self.cheap_entails(i >= 0)
            if nonneg:
                if self.cheap_entails(i <= n):
                    return i
                return z3.If(i > n, n, i)
            return z3.If(i < 0, z3.If(i + n < 0, 0, i + n), z3.If(i > n, n, i))
        lo = norm(sl.lower, z3.IntVal(0))
        hi = norm(sl.upper, n)
        return lo, hi

    def concat_terms(self, x, y):
        """x ++ y, merging adjacent pieces of the same sync byte stream: SB(l,a,b) ++ SB(l,b,c) == SB(l,a,c) (split axiom)."""
        def is_sb(t):
            return z3.is_app(t) and t.decl().kind() == z3.Z3_OP_UNINTERPRETED and t.decl().name() == 'SB'
        if is_sb(x) and is_sb(y) and x.arg(0).eq(y.arg(0)):
            a, b, b2, c = x.arg(1), x.arg(2), y.arg(1), y.arg(2)
            if self.cheap_entails(z3.And(b == b2, a <= b, b <= c)):
                return SF.SB(x.arg(0), a, c)
        if z3.is_app(x) and x.decl().kind() == z3.Z3_OP_SEQ_EMPTY:
            return y
        if z3.is_app(y) and y.decl().kind() == z3.Z3_OP_SEQ_EMPTY:
            return x
        return z3.Concat(x, y)

    def slice_term(self, t, lo, hi, depth=0):
        """t[lo:hi] for already clamped 0 <= lo, hi <= len(t): pushed through concatenations and earlier extractions
        where the path condition (arithmetic abstraction) shows on which side of a boundary the slice lies."""
        lo, hi = z3.simplify(lo), z3.simplify(hi)
        if depth < 6 and z3.is_app(t):
            k = t.decl().kind()
            if k == z3.Z3_OP_SEQ_CONCAT and self.cheap_entails(hi >= lo):
                parts = t.children()
                first = parts[0]
                rest = parts[1] if len(parts) == 2 else z3.Concat(*parts[1:])
                n1 = z3.Length(first)
                if self.cheap_entails(hi <= n1):
                    return self.slice_term(first, lo, hi, depth + 1)
                if self.cheap_entails(lo >= n1):
                    return self.slice_term(rest, lo - n1, hi - n1, depth + 1)
                if self.cheap_entails(z3.And(lo <= n1, hi >= n1)):
                    a = self.slice_term(first, lo, n1, depth + 1)
                    b = self.slice_term(rest, z3.IntVal(0), hi - n1, depth + 1)
                    return z3.Concat(a, b)
            elif k == z3.Z3_OP_UNINTERPRETED and t.decl().name() == 'SB' and self.cheap_entails(hi >= lo):
                a, b = t.arg(1), t.arg(2)
                if self.cheap_entails(z3.And(lo >= 0, a + hi <= b)):
                    return SF.SB(t.arg(0), z3.simplify(a + lo), z3.simplify(a + hi))
            elif k == z3.Z3_OP_SEQ_EXTRACT and self.cheap_entails(hi >= lo):
                base, off, n = t.arg(0), t.arg(1), t.arg(2)
                if self.cheap_entails(z3.And(off >= 0, n >= 0, off + n <= z3.Length(base), hi <= n, lo >= 0)):
                    return z3.simplify(z3.SubSeq(base, off + lo, hi - lo))
        if self.cheap_entails(z3.And(lo == 0, hi == z3.Length(t))):
            return t
        ln = (hi - lo) if self.cheap_entails(hi >= lo) else z3.If(hi - lo < 0, 0, hi - lo)
        return z3.simplify(z3.SubSeq(t, lo, ln))

    def cheap_entails(self, f):
        """Used only to pick the simpler of two equivalent encodings (Python's slice clamping): a `no` is always safe."""
        f = z3.simplify(f)
        if z3.is_true(f):
            return True
        if z3.is_false(f):
            return False
        key = (len(self.pc), f.get_id(), tuple(self.decisions))
        cache = self.__dict__.setdefault('_cheap_cache', {})
        if key in cache:
            return cache[key][1]
        r = unsat_abstract(self.pc + list(self.assume_ctx) + [z3.Not(f)], 300)
        cache[key] = (f, r)       # keeps f alive so its id is not recycled
        return r

    def ex_Subscript(self, node):
        base = self.eval(node.value)
        if isinstance(base, VOpt):
            base = self.nonnull(base, 'subscript')
        if isinstance(base, (VBytes, VStr)):
            if isinstance(node.slice, ast.Slice):
                if isinstance(base, VStr):
                    raise Unsupported('slicing a str')
                lo, hi = self.slice_bounds(node.slice, base)
                return VBytes(self.slice_term(base.term, lo, hi), base.ba)
            if isinstance(base, VStr):
                raise Unsupported('indexing a str')
            i = to_int(self.eval(node.slice))
            n = z3.Length(base.term)
            j = z3.If(i < 0, i + n, i)
            ok = z3.And(j >= 0, j < n)
            if self.mode != 'spec':
                if not self.branch(ok):
                    raise RaiseSig(VExc('IndexError'))
            return VInt(z3.BV2Int(base.term[j], False))
        if isinstance(base, (VTuple, VList)):
            if isinstance(node.slice, ast.Slice):
                if node.slice.step is not None:
                    raise Unsupported('slice step')
                lo = self.const_index(node.slice.lower, 0, len(base.items))
                hi = self.const_index(node.slice.upper, len(base.items), len(base.items))
                return type(base)(base.items[lo:hi])
            iv = self.eval(node.slice)
            ic = VInt(to_int(iv)).concrete()
            if ic is None and self.mode == 'spec' and base.items:
                cur = base.items[-1]
                for k in range(len(base.items) - 2, -1, -1):
                    cur = merge(to_int(iv) == k, base.items[k], cur)
                return cur
            if ic is None:
                raise Unsupported('symbolic index into a tuple')
            if not -len(base.items) <= ic < len(base.items):
                raise RaiseSig(VExc('IndexError'))
            return base.items[ic]
        if isinstance(base, VSeq):
            if isinstance(node.slice, ast.Slice):
                raise Unsupported('slicing a symbolic list')
            i = to_int(self.eval(node.slice))
            ok = z3.And(i >= 0, i < base.length)
            if self.mode != 'spec':
                ic = VInt(i).concrete()
                if ic is not None and ic < 0:
                    raise Unsupported('negative index into symbolic list')
                if not self.branch(ok):
                    raise RaiseSig(VExc('IndexError'))
            return base.elem(i)
        r = self.world.subscript_load(self, base, node)
        if r is NotImplemented:
            raise Unsupported('subscript on %r at %s' % (base, self.where()))
        return r

    def const_index(self, e, default, n):
        if e is None:
            return default
        v = self.eval(e)
        c = VInt(to_int(v)).concrete()
        if c is None:
            raise Unsupported('symbolic slice bound on a tuple')
        if c < 0:
            c = max(0, c + n)
        return min(c, n)

    # ---- calls ------------------------------------------------------------------------------------

    def ex_Call(self, node):
        return self.world.call(self, node)

    def ex_GeneratorExp(self, node):
        return self.world.generator_expression(self, node)

    def ex_ListComp(self, node):
        return self.world.list_comprehension(self, node)

    def ex_JoinedStr(self, node):
        raise Unsupported('f-string')

    def ex_Lambda(self, node):
        if self.mode == 'spec':
            return self.world.spec_lambda(self, node)
        raise Unsupported('lambda')

    # generic call of a contract ------------------------------------------------------------------

    def bind_args(self, contract, fn_node, recv, args, kwargs, module=None):
        pnames = list(contract.params.keys()) if contract is not None else [a.arg for a in fn_node.args.args]
        bound = {}
        rest = pnames
        if recv is not None and pnames and pnames[0] in ('self', 'cls'):
            bound[pnames[0]] = recv
            rest = pnames[1:]
        if len(args) > len(rest):
            if contract is None and fn_node is not None and fn_node.args.vararg is not None:
                bound[fn_node.args.vararg.arg] = VTuple(args[len(rest):])
                args = args[:len(rest)]
            else:
                raise Unsupported('too many positional arguments for %s' % (contract.key if contract else fn_node.name))
        for p, a in zip(rest, args):
            bound[p] = a
        for k, v in kwargs.items():
            if k in bound or k not in pnames:
                if contract is None and fn_node is not None and fn_node.args.kwarg is not None:
                    continue
                raise Unsupported('bad keyword %s' % k)
            bound[k] = v
        missing = [p for p in pnames if p not in bound]
        if missing:
            defaults = {}
            if fn_node is not None:
                defaults = self.param_defaults(fn_node)
            for p in missing:
                if p in defaults:
                    saved_mod = self.cur_module
                    saved_env = self.env
                    if module is not None:
                        self.cur_module = module
                    self.env = {}
                    try:
                        bound[p] = self.eval(defaults[p])
                    finally:
                        self.cur_module = saved_mod
                        self.env = saved_env
                elif contract is not None and p in contract.defaults:
                    bound[p] = self.eval_spec_expr(contract.defaults[p])
                else:
                    raise Unsupported('missing argument %s for %s' % (p, contract.key if contract else fn_node.name))
        return bound

    def coerce_arg(self, v, typ):
        return self.world.coerce(self, v, typ)

    def call_contract(self, contract, bound, node=None, label=None):
        """Use a callee's contract: assert requires, havoc modifies, assume ensures / raises."""
        self.stats['calls'] += 1
        for p, t in contract.params.items():
            if p in bound:
                bound[p] = self.coerce_arg(bound[p], t)
        site = '%s@%s' % (contract.key, getattr(node, 'lineno', '?')) if label is None else label
        # the callee's precondition is an obligation of the caller
        scope = dict(bound)
        scope['G'] = self.G
        for c in contract.requires:
            f = self.eval_clause(c, scope)
            self.oblige('call[%s]/%s' % (site, c.label), f, self.props_of(c, self.contract) | (c.props or set()), 'pre', expr=c.expr)
            self.assume(f)
        for c in self.contract.call_asserts.get(contract.key, []):
            sc = dict(self.inv_scope(getattr(self, 'cur_loop_idx', None), None))
            sc.update({'_arg_' + k: v for k, v in bound.items()})
            f = self.eval_clause(c, sc)
            self.oblige('call[%s]/%s' % (site, c.label), f, self.props_of(c, self.contract), 'call-site', expr=c.expr)
        old = self.snapshot()
        old_bound = dict(bound)
        event = {'callee': contract.key, 'site': site, 'args': dict(bound), 'outcome': None}
        self.trace.append(event)
        # exceptional outcomes
        for cls, clauses in contract.raises.items():
            if self.choose('%s.raises.%s' % (contract.key, cls)):
                cname = cls.rstrip('+') if cls != '*' else 'AnyError'
                exc = VExc(cname, self.world.exc_payload(self, contract, cname, bound))
                self.apply_effects(contract, bound, old, old_bound, clauses, None, cls, exc=exc)
                if 'G.rpos' in contract.modifies and cname in STREAM_FAILURES and 'broken' in self.G.fields:
                    self.G.fields['broken'] = VBool(z3.Bool(self.fresh_name('G.broken')))
                event['outcome'] = ('raise', cname)
                event['post'] = self.capture_modified(contract, bound)
                raise RaiseSig(exc)
        result = None
        rtype = contract.returns
        if callable(rtype):
            rtype = rtype(self, bound)
        if isinstance(rtype, dict):
            sel = truth(bound[rtype['by']])
            rtype = rtype[True] if self.branch(sel) else rtype[False]
        if rtype is not None and rtype != 'none':
            result = self.fresh(rtype, contract.key.split('.')[-1] + '.ret')
        else:
            result = NONE
        result = self.apply_effects(contract, bound, old, old_bound, list(contract.ensures) + list(contract.defines), result, None, rtype)
        event['outcome'] = ('return', result)
        event['post'] = self.capture_modified(contract, bound)
        return result

    def capture_modified(self, contract, bound):
        out = []
        for m in contract.modifies:
            try:
                for o, f in self.resolve_path(m, bound):
                    out.append((o.name, f, o.fields[f]))
            except Unsupported:
                pass
        return out

    def apply_effects(self, contract, bound, old, old_bound, clauses, result, exc_cls, rtype=None, exc=None):
        locs = []
        for m in contract.modifies:
            locs.extend(self.resolve_path(m, bound))
        self.havoc_locs(locs)
        scope = dict(bound)
        scope['G'] = self.G
        if result is not None:
            scope['result'] = result
        if exc is not None:
            scope['exc'] = exc
        saved = (self.old_snap, self.old_env)
        self.old_snap, self.old_env = old, old_bound
        try:
            self.bind_lets(contract, scope)
            if exc is not None:
                # `exc.payload == E` defines the payload the callee attaches to the exception
                rest = []
                for c in clauses:
                    t = c.tree
                    if isinstance(t, ast.Compare) and len(t.ops) == 1 and isinstance(t.ops[0], ast.Eq) and isinstance(t.left, ast.Attribute) \
                            and t.left.attr == 'payload' and isinstance(t.left.value, ast.Name) and t.left.value.id == 'exc':
                        exc.payload = self.eval_clause_value_tree(t.comparators[0], scope)
                    else:
                        rest.append(c)
                clauses = rest
            holder = {'result': result}
            fresh_locs = {(id(o), f) for o, f in locs}
            # the fields of a freshly created result object are fresh too
            stack = [result] if isinstance(result, VObj) else []
            while stack:
                o = stack.pop()
                for f, fv in o.fields.items():
                    fresh_locs.add((id(o), f))
                    if isinstance(fv, VObj):
                        stack.append(fv)
            done_locs = set()
            state = {'result_seen': False}
            for c in clauses:
                for t in flatten_and(c.tree):
                    self.assume_or_bind(t, scope, holder, rtype, fresh_locs, done_locs, state, set())
            result = holder['result']
        finally:
            self.old_snap, self.old_env = saved
        return result

    def assume_or_bind(self, t, scope, holder, rtype, fresh_locs, done_locs, state, fresh_names):
        """Assume the conjunct t; a definitional equation `x == E` for a just-havocked x (the result, a modified field, a loop
        variable) with E not mentioning x is *bound* (x := E) instead -- same meaning, but terms stay structural."""
        done = False
        if isinstance(t, ast.Compare) and len(t.ops) == 1 and isinstance(t.ops[0], ast.Eq):
            lhs, rhs = t.left, t.comparators[0]
            if isinstance(lhs, ast.Name) and lhs.id == 'result' and holder.get('result') is not None and isinstance(rtype, str) \
                    and not state['result_seen'] and not mentions(rhs, lhs):
                try:
                    v = self.retag(self.eval_clause_value_tree(rhs, scope), rtype)
                except Unsupported:
                    v = None
                if v is not None:
                    holder['result'] = v
                    scope['result'] = v
                    done = True
            elif isinstance(lhs, ast.Name) and lhs.id in fresh_names and lhs.id not in done_locs and not mentions(rhs, lhs):
                cur = scope.get(lhs.id)
                try:
                    v = self.eval_clause_value_tree(rhs, scope)
                except Unsupported:
                    v = None
                if v is not None and type(v) is type(cur) and isinstance(v, (VInt, VBytes, VBool, VReal)):
                    if isinstance(v, VBytes):
                        v = VBytes(v.term, cur.ba)
                    self.assume(veq(cur, v))         # earlier terms may already mention the havocked symbol
                    scope[lhs.id] = v
                    holder.setdefault('names', {})[lhs.id] = v
                    done_locs.add(lhs.id)
                    done = True
            elif isinstance(lhs, ast.Attribute) and not mentions(rhs, lhs):
                loc = self.static_location(lhs, scope)
                if loc is not None and (id(loc[0]), loc[1]) in fresh_locs and (id(loc[0]), loc[1]) not in done_locs:
                    cur = loc[0].fields[loc[1]]
                    try:
                        v = self.eval_clause_value_tree(rhs, scope)
                    except Unsupported:
                        v = None
                    if v is not None and type(v) is type(cur) and isinstance(v, (VInt, VBytes, VBool, VReal, VMap)):
                        if isinstance(v, VBytes):
                            v = VBytes(v.term, cur.ba)
                        self.assume(veq(cur, v))     # earlier terms may already mention the havocked symbol
                        loc[0].fields[loc[1]] = v
                        done_locs.add((id(loc[0]), loc[1]))
                        done = True
        if any(isinstance(n, ast.Name) and n.id == 'result' for n in ast.walk(t)):
            state['result_seen'] = True
        if not done:
            saved_env, saved_mode = self.env, self.mode
            self.env, self.mode = scope, 'spec'
            try:
                f = truth(self.eval(t))
            finally:
                self.env, self.mode = saved_env, saved_mode
            self.assume(f)

    def static_location(self, node, scope):
        """(object, field) denoted by an attribute chain over the scope's names, or None."""
        if not isinstance(node, ast.Attribute):
            return None
        try:
            saved = self.env
            self.env = scope
            try:
                base = self.eval_pure(node.value)
            finally:
                self.env = saved
        except (Unsupported, KeyError):
            return None
        if isinstance(base, VOpt):
            base = base.val
        if isinstance(base, VObj) and node.attr in base.fields:
            return (base, node.attr)
        return None

    def retag(self, v, rtype):
        rtype = rtype.strip()
        if rtype in ('bytes', 'bytearray') and isinstance(v, VBytes):
            return VBytes(v.term, rtype == 'bytearray')
        if rtype == 'str' and isinstance(v, VStr):
            return v
        if rtype in ('int',) and isinstance(v, VInt):
            return v
        if rtype.startswith('opaque') and isinstance(v, VOpaque) and v.term is not None:
            return VOpaque(rtype.split(':', 1)[1] if ':' in rtype else v.tag, v.term)
        return None

    def eval_clause_value_tree(self, tree, scope):
        saved_env, saved_mode = self.env, self.mode
        self.env, self.mode = scope, 'spec'
        try:
            return self.eval(tree)
        finally:
            self.env, self.mode = saved_env, saved_mode
