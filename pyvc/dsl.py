"""Contract DSL: what the sidecar files under /verif/contracts declare.

A contract names a function of the real code base by an *abstract key* (`IOManager._send`,
`adb_message.checksum`) and says where its source lives for the sync and the async twin.  Clauses
are Python expression strings, evaluated symbolically by the same evaluator that executes the code.

Clause forms accepted in requires / ensures / invariant lists:
    'expr'                         belongs to every property of the contract
    ('C11', 'expr')                belongs to property C11 only
    ('C11', 'label', 'expr')       same, with an explicit obligation label
    ('C03,C11', 'expr')            belongs to several
"""
import ast
import collections

CLASSES = collections.OrderedDict()
CONTRACTS = collections.OrderedDict()
GHOST = collections.OrderedDict()
LEMMAS = collections.OrderedDict()
FRAMESCANS = []


class Clause(object):
    def __init__(self, expr, props=None, label=None):
        self.expr = expr
        self.props = props
        self.label = label
        self._ast = None

    @property
    def tree(self):
        if self._ast is None:
            self._ast = ast.parse(self.expr.strip(), mode='eval').body
        return self._ast

    def __repr__(self):
        return 'Clause(%r)' % (self.expr,)


def _clauses(items, prefix):
    out = []
    for n, it in enumerate(items or []):
        if isinstance(it, Clause):
            c = it
        elif isinstance(it, str):
            c = Clause(it)
        elif len(it) == 2:
            c = Clause(it[1], props=set(it[0].split(',')))
        else:
            c = Clause(it[2], props=set(it[0].split(',')), label=it[1])
        if c.label is None:
            c.label = '%s%d' % (prefix, n)
        out.append(c)
    return out


class ClassDecl(object):
    def __init__(self, name, fields, real=None, check_init=True, extra_ok=(), bases=()):
        self.bases = set(bases)
        self.name = name
        self.fields = collections.OrderedDict(fields)
        self.real = real or {}
        self.check_init = check_init
        self.extra_ok = set(extra_ok)


def klass(name, fields, real=None, check_init=True, extra_ok=(), bases=()):
    """Declare an object class: field name -> type.  `real` maps twin -> 'module:ClassName'."""
    if isinstance(real, str):
        real = {'sync': real, 'async': real}
    CLASSES[name] = ClassDecl(name, fields, real, check_init, extra_ok, bases)
    return CLASSES[name]


def ghost(name, typ, doc=''):
    GHOST[name] = (typ, doc)


class Loop(object):
    def __init__(self, invariant=(), variant=None, modifies=(), label=None):
        self.invariant = _clauses(invariant, 'inv')
        self.variant = variant
        self.modifies = list(modifies)


class Contract(object):
    def __init__(self, key, **kw):
        self.key = key
        self.params = collections.OrderedDict(kw.pop('params', {}))
        self.returns = kw.pop('returns', None)
        self.requires = _clauses(kw.pop('requires', []), 'pre')
        self.ensures = _clauses(kw.pop('ensures', []), 'post')
        self.defines = _clauses(kw.pop('defines', []), 'def')
        raises = kw.pop('raises', {})
        self.raises = collections.OrderedDict((k, _clauses(v, 'exc[%s]' % k)) for k, v in raises.items())
        self.modifies = list(kw.pop('modifies', []))
        self.loops = {k: (v if isinstance(v, Loop) else Loop(**v)) for k, v in kw.pop('loops', {}).items()}
        self.trusted = kw.pop('trusted', False)
        self.real = kw.pop('real', None)
        if isinstance(self.real, str):
            self.real = {'sync': self.real, 'async': self.real}
        self.variants = kw.pop('variants', None) or [{}]
        self.props = list(kw.pop('props', []))
        self.gen = kw.pop('gen', None)           # generator spec: dict(elem=..., joined=...)
        self.inline = kw.pop('inline', False)
        self.pure = kw.pop('pure', False)
        self.doc = kw.pop('doc', '')
        self.twins = kw.pop('twins', ('sync', 'async'))
        self.locals_types = kw.pop('locals', {})
        self.ghost_locals = kw.pop('ghost_locals', {})
        self.defaults = kw.pop('defaults', {})
        self.call_asserts = {k: _clauses(v, 'at-call') for k, v in kw.pop('call_asserts', {}).items()}
        self.on_yield = _clauses(kw.pop('on_yield', []), 'yield')
        self.yield_havoc = list(kw.pop('yield_havoc', []))
        self.covers = kw.pop('covers', True)
        self.ghost_exit = list(kw.pop('ghost_exit', []))
        self.escape_props = kw.pop('escape_props', None)
        self.interference = dict(kw.pop('interference', {}))   # lock name -> dict(props=[..], havoc=[paths], stable=[(cond, expr)])
        self.lets = list(kw.pop('lets', []))       # [(name, expr)]: abbreviations available to ensures / raises / defines
        self.at_return = {k: _clauses(v, 'ret%s-' % k) for k, v in kw.pop('at_return', {}).items()}
        if kw:
            raise TypeError('unknown contract keys %r for %s' % (sorted(kw), key))

    def __repr__(self):
        return 'Contract(%s)' % self.key


def contract(key, **kw):
    c = Contract(key, **kw)
    if key in CONTRACTS:
        raise ValueError('duplicate contract ' + key)
    CONTRACTS[key] = c
    return c


def lemma(name, props, build, doc=''):
    """A stand-alone proof obligation about spec functions: build(z3) -> (assumptions, claim)."""
    LEMMAS[name] = (set(props), build, doc)


def framescan(name, props, fn, doc='', side_condition=False):
    """A syntactic frame obligation over the AST (back end `ast-frame`): fn(sources, twin) -> list of problems.
    `side_condition=True`: the scan establishes a side condition under which the contracts are complete / an assumption is justified
    (who else writes to the transport, is a signer in the shape whose library call conforms, ...).  When it does not hold nothing is
    refuted -- the contracts just no longer cover the code -- so its problems are reported as UNDECIDED, never as a violation."""
    if side_condition:
        inner = fn

        def fn(sources, twin, _inner=inner):
            return [x if str(x).startswith('UNDECIDED:') else 'UNDECIDED: ' + str(x) for x in _inner(sources, twin)]
    FRAMESCANS.append((name, set(props), fn, doc))


def reset():
    CLASSES.clear()
    CONTRACTS.clear()
    GHOST.clear()
    LEMMAS.clear()
    del FRAMESCANS[:]
