"""Discharging obligations: z3 first (Python API, one process per worker), cvc5 CLI for what z3 leaves open.

Verdicts per obligation:  'unsat' = discharged;  'sat' = refuted (model attached);  'unknown' = undecided.
Nothing here turns `unknown`, a timeout or a crash into a violation.
"""
import multiprocessing
import os
import subprocess
import tempfile
import time
from fractions import Fraction

import z3

from . import specfuns as SF


def build_query(pc, claim):
    """SMT-LIB text of  pc /\\ axioms /\\ not claim."""
    s = z3.Solver()
    fs = list(pc) + [z3.Not(claim)]
    for f in fs:
        s.add(f)
    for f in SF.axioms_for(fs):
        s.add(f)
    return s.to_smt2()


def build_sat_query(pc):
    s = z3.Solver()
    for f in pc:
        s.add(f)
    for f in SF.axioms_for(list(pc)):
        s.add(f)
    return s.to_smt2()


def value_to_py(v):
    try:
        if z3.is_int_value(v):
            return v.as_long()
        if z3.is_true(v):
            return True
        if z3.is_false(v):
            return False
        if z3.is_rational_value(v):
            fr = Fraction(v.numerator_as_long(), v.denominator_as_long())
            return float(fr) if fr.denominator != 1 else int(fr)
        if z3.is_algebraic_value(v):
            return float(v.approx(10).as_fraction())
        if z3.is_seq(v):
            from .values import seq_concrete
            b = seq_concrete(v)
            if b is not None:
                return {'bytes': b.hex()}
        if z3.is_bv_value(v):
            return v.as_long()
    except Exception:      # noqa
        pass
    return {'sexpr': v.sexpr()[:2000]}


def _solve_one(task):
    name, text, timeout_ms, use_cvc5 = task
    t0 = time.time()
    backend = 'z3'
    model = None
    try:
        s = z3.Solver()
        s.set('timeout', timeout_ms)
        s.from_string(text)
        r = s.check()
        res = str(r)
        if r == z3.sat:
            m = s.model()
            model = {}
            for d in m.decls():
                if d.arity() == 0:
                    model[d.name()] = value_to_py(m[d])
                else:
                    try:
                        model[d.name()] = {'func': m[d].as_list().__repr__()[:4000]}
                    except Exception:      # noqa
                        model[d.name()] = {'func': '?'}
        reason = s.reason_unknown() if r == z3.unknown else ''
    except Exception as e:      # noqa
        res, reason = 'unknown', 'z3 error: %r' % (e,)
    z3_s = time.time() - t0
    cvc5_s = 0.0
    if res == 'unknown' and use_cvc5:
        t1 = time.time()
        c = run_cvc5(text, timeout_ms)
        cvc5_s = time.time() - t1
        if c in ('unsat', 'sat'):
            res = c
            backend = 'cvc5'
            reason = ''
    return name, res, backend, z3_s, cvc5_s, model, reason


def run_cvc5(text, timeout_ms):
    with tempfile.NamedTemporaryFile('w', suffix='.smt2', delete=False, dir=os.environ.get('PYVC_TMP', None)) as f:
        f.write('(set-logic ALL)\n')
        f.write(text)
        path = f.name
    try:
        p = subprocess.run(['/usr/bin/cvc5', '--strings-exp', '--tlimit=%d' % timeout_ms, path],
                           capture_output=True, text=True, timeout=timeout_ms / 1000.0 + 10)
        out = p.stdout.strip().split('\n')[0] if p.stdout.strip() else ''
        return out
    except Exception:      # noqa
        return 'unknown'
    finally:
        try:
            os.unlink(path)
        except OSError:
            pass


def solve_all(tasks, jobs=None, both=False):
    """tasks: list of (name, smt2 text, timeout_ms).  Returns dict name -> result record."""
    jobs = jobs or min(16, os.cpu_count() or 4)
    items = [(n, t, to, True) for (n, t, to) in tasks]
    out = {}
    if not items:
        return out
    if jobs == 1 or len(items) == 1:
        results = [_solve_one(it) for it in items]
    else:
        ctx = multiprocessing.get_context('fork')
        with ctx.Pool(min(jobs, len(items))) as pool:
            results = pool.map(_solve_one, items, chunksize=1)
    for name, res, backend, z3_s, cvc5_s, model, reason in results:
        out[name] = {'result': res, 'backend': backend, 'z3_s': round(z3_s, 4), 'cvc5_s': round(cvc5_s, 4), 'model': model, 'reason': reason}
    if both:
        # thorough: every obligation is also given to cvc5; a disagreement is a checker error
        ctx = multiprocessing.get_context('fork')
        with ctx.Pool(min(jobs, len(items))) as pool:
            cv = pool.map(_cvc5_only, [(n, t, to) for (n, t, to, _) in items], chunksize=1)
        for name, r, secs in cv:
            out[name]['cvc5_result'] = r
            out[name]['cvc5_s'] = round(secs, 4)
    return out


def _cvc5_only(task):
    name, text, to = task
    t = time.time()
    r = run_cvc5(text, to)
    return name, r, time.time() - t
