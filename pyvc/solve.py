"""Discharging obligations: z3 first, cvc5 for what z3 leaves open.

Both solvers run as *separate processes* under a hard wall-clock and memory limit (z3's in-process timeout is not honoured
reliably by its sequence solver; a runaway query must not take the check down).
Verdicts per obligation:  'unsat' = discharged;  'sat' = refuted (model attached);  'unknown' = undecided.
Nothing here turns `unknown`, a timeout or a crash into a violation.
"""
import multiprocessing
import os
import re
import subprocess
import tempfile
import time

import z3

from . import specfuns as SF

Z3_BIN = '/usr/local/bin/z3-new' if os.path.exists('/usr/local/bin/z3-new') else 'z3'
CVC5_BIN = '/usr/bin/cvc5'
MEM_MB = 3000


def build_query(pc, claim):
    """SMT-LIB text of  pc /\\ axioms /\\ not claim."""
    s = z3.Solver()
    fs = list(pc) + [z3.Not(claim)]
    for f in fs:
        s.add(f)
    for f in SF.axioms_for(fs):
        s.add(f)
    return s.to_smt2()


def build_sat_query(pc):
    s = z3.Solver()
    for f in pc:
        s.add(f)
    for f in SF.axioms_for(list(pc)):
        s.add(f)
    return s.to_smt2()


def _tmpdir():
    d = os.environ.get('PYVC_TMP')
    if d:
        os.makedirs(d, exist_ok=True)
    return d


def run_z3(text, timeout_ms, want_model=False):
    with tempfile.NamedTemporaryFile('w', suffix='.smt2', delete=False, dir=_tmpdir()) as f:
        f.write(text)
        if want_model:
            f.write('\n(get-model)\n')
        path = f.name
    secs = max(1, int(round(timeout_ms / 1000.0)))
    try:
        p = subprocess.run([Z3_BIN, '-T:%d' % secs, '-memory:%d' % MEM_MB, path], capture_output=True, text=True, timeout=secs + 15)
        out = p.stdout.strip()
        first = out.split('\n')[0].strip() if out else ''
        if first not in ('sat', 'unsat', 'unknown'):
            return 'unknown', (first or p.stderr.strip())[:200], ''
        return first, '', out[len(first):] if want_model else ''
    except subprocess.TimeoutExpired:
        return 'unknown', 'hard timeout', ''
    except Exception as e:      # noqa
        return 'unknown', 'z3 error: %r' % (e,), ''
    finally:
        try:
            os.unlink(path)
        except OSError:
            pass


def run_cvc5(text, timeout_ms):
    with tempfile.NamedTemporaryFile('w', suffix='.smt2', delete=False, dir=_tmpdir()) as f:
        f.write('(set-logic ALL)\n')
        f.write(text)
        path = f.name
    try:
        p = subprocess.run([CVC5_BIN, '--strings-exp', '--tlimit=%d' % timeout_ms, path],
                           capture_output=True, text=True, timeout=timeout_ms / 1000.0 + 15)
        out = p.stdout.strip().split('\n')[0] if p.stdout.strip() else ''
        return out
    except Exception:      # noqa
        return 'unknown'
    finally:
        try:
            os.unlink(path)
        except OSError:
            pass


_DEF = re.compile(r'\(define-fun\s+(\S+)\s+\(\)\s+(\(Seq \(_ BitVec 8\)\)|Int|Bool|Real)\s+', re.S)


def parse_model(text):
    """Constants of sort Int / Bool / Real / Seq(BitVec 8) from z3's (get-model) output (best effort; the raw text is kept too)."""
    out = {}
    pos = 0
    while True:
        m = _DEF.search(text, pos)
        if not m:
            break
        name, sort = m.group(1), m.group(2)
        # balanced s-expression after the header
        i = m.end()
        depth = 0
        j = i
        while j < len(text):
            ch = text[j]
            if ch == '(':
                depth += 1
            elif ch == ')':
                if depth == 0:
                    break
                depth -= 1
            j += 1
        body = text[i:j].strip()
        pos = j
        name = name.strip('|')
        if sort == 'Int':
            mm = re.fullmatch(r'\(-\s+(\d+)\)', body)
            if mm:
                out[name] = -int(mm.group(1))
            elif re.fullmatch(r'\d+', body):
                out[name] = int(body)
        elif sort == 'Bool':
            if body in ('true', 'false'):
                out[name] = (body == 'true')
        elif sort == 'Real':
            try:
                mm = re.fullmatch(r'\(/\s+([\d.]+)\s+([\d.]+)\)', body)
                neg = re.fullmatch(r'\(-\s+(.*)\)', body)
                if mm:
                    out[name] = float(mm.group(1)) / float(mm.group(2))
                elif neg:
                    inner = neg.group(1).strip()
                    mm = re.fullmatch(r'\(/\s+([\d.]+)\s+([\d.]+)\)', inner)
                    out[name] = -(float(mm.group(1)) / float(mm.group(2))) if mm else -float(inner)
                else:
                    out[name] = float(body)
            except Exception:      # noqa
                pass
        else:
            bs = re.findall(r'#x([0-9a-fA-F]{2})', body)
            if 'seq.empty' in body and not bs:
                out[name] = {'bytes': ''}
            elif bs and len(bs) < 5000000:
                out[name] = {'bytes': ''.join(bs)}
    return out


def _cover_one(task):
    """A satisfiability cover: cvc5 first (better at finding sequence models), then z3."""
    name, text, timeout_ms, _ = task
    t0 = time.time()
    r = run_cvc5(text, timeout_ms)
    backend = 'cvc5'
    if r not in ('sat', 'unsat'):
        r, _, _ = run_z3(text, timeout_ms)
        backend = 'z3'
    return name, r if r in ('sat', 'unsat') else 'unknown', backend, 0.0, time.time() - t0, None, ''


def _solve_one(task):
    name, text, timeout_ms, use_cvc5 = task
    t0 = time.time()
    res, reason, _ = run_z3(text, timeout_ms)
    backend = 'z3'
    z3_s = time.time() - t0
    cvc5_s = 0.0
    if res == 'unknown' and use_cvc5:
        t1 = time.time()
        c = run_cvc5(text, timeout_ms)
        cvc5_s = time.time() - t1
        if c in ('unsat', 'sat'):
            res, backend, reason = c, 'cvc5', ''
    model = None
    raw = ''
    if res == 'sat':
        # ask z3 for the model of the refutation (short budget; the verdict does not depend on it)
        r2, _, raw = run_z3(text, min(timeout_ms, 20000), want_model=True)
        if r2 == 'sat':
            model = parse_model(raw)
            model['__raw__'] = raw[:20000]
    return name, res, backend, z3_s, cvc5_s, model, reason


def solve_all(tasks, jobs=None, both=False, sat_first=False):
    """tasks: list of (name, smt2 text, timeout_ms).  Returns dict name -> result record."""
    jobs = jobs or min(16, os.cpu_count() or 4)
    items = [(n, t, to, True) for (n, t, to) in tasks]
    out = {}
    if not items:
        return out
    fn = _cover_one if sat_first else _solve_one
    if jobs == 1 or len(items) == 1:
        results = [fn(it) for it in items]
    else:
        ctx = multiprocessing.get_context('fork')
        with ctx.Pool(min(jobs, len(items))) as pool:
            results = pool.map(fn, items, chunksize=1)
    for name, res, backend, z3_s, cvc5_s, model, reason in results:
        out[name] = {'result': res, 'backend': backend, 'z3_s': round(z3_s, 4), 'cvc5_s': round(cvc5_s, 4), 'model': model, 'reason': reason}
    if both:
        # thorough: every obligation is also given to cvc5; a disagreement is a checker error
        ctx = multiprocessing.get_context('fork')
        with ctx.Pool(min(jobs, len(items))) as pool:
            cv = pool.map(_cvc5_only, [(n, t, to) for (n, t, to, _) in items], chunksize=1)
        for name, r, secs in cv:
            out[name]['cvc5_result'] = r
            out[name]['cvc5_s'] = round(secs, 4)
    return out


def _cvc5_only(task):
    name, text, to = task
    t = time.time()
    r = run_cvc5(text, to)
    return name, r, time.time() - t
